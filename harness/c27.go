package main

// C27: the engine is silent by default.
//
// Static side: the harness's own scan of the sources (c27_scan.go) is compared in Coq with the
// graph the translator generated, and any function that references an output sink is a
// violation naming the function.
//
// Dynamic side: the harness re-executes itself as a child process whose file descriptors 1
// and 2 are two files. The child runs engine histories full of failures with
// Config.Logger = nil and prints nothing itself; afterwards both files must be empty. Each
// history is first run with a recording logger (memory only), to know whether the engine had
// anything to say on that path.

import (
	"context"
	"encoding/json"
	"errors"
	"fmt"
	"iter"
	"log/slog"
	"math/rand/v2"
	"os"
	"os/exec"
	"path/filepath"
	"strings"
	"sync"
	"syscall"
	"time"

	bs "github.com/danthegoodman1/bloomsearch"
)

func init() {
	register("c27", []string{"C27"}, runC27)
	register("c27child", nil, runC27Child)
}

const runnerL = "Model.Silent Generated.SilentGraph Cases.RunnerL"

func runC27(c *Ctx) {
	c.rep.Rule = "static: one evaluation per function/method of package bloomsearch (non-test files, verif tag on and off), as scanned by the harness itself; " +
		"compared in Coq with Generated/SilentGraph.v; a reference to an output sink is a violation naming the function; non-trivial = the function references at least one external identifier. " +
		"dynamic: one evaluation per engine history run in a child process with fd 1 and fd 2 redirected to files and Config.Logger = nil " +
		"(store faults during flush and merge, corrupt files, missing filters, Stop with expired deadline on wedged stores, query errors, filesystem store); " +
		"non-trivial = the same history run with a recording logger produced at least one log record (the engine had something to say) or ended in an error. " +
		"Both files must be empty; a positive control (child told to write one byte to each descriptor) must be seen."
	// ---- static
	fns, nilLogger, nilLoggerText := scanRepo(repoDir())
	sh := c.newShard("l", runnerL, "caseL", "mismatches", "violations")
	sh.prelude = append(sh.prelude, "Open Scope string_scope.")
	sh.limit = 400
	for _, fn := range fns {
		refs := make([]string, len(fn.Refs))
		var sinks []string
		for i, r := range fn.Refs {
			refs[i] = fmt.Sprintf("(%s, %s)", coqStringLit(r.Pkg), coqStringLit(r.Name))
			if goIsSink(r) {
				sinks = append(sinks, r.Pkg+"."+r.Name)
			}
		}
		desc := map[string]any{"kind": "function", "file": fn.File, "function": fn.Name, "line": fn.Line, "refs": fn.Refs}
		sh.add(c, fmt.Sprintf("LFn %s %s %s", coqStringLit(fn.File), coqStringLit(fn.Name), coqList(refs)), desc)
		c.count([]string{"C27"}, "fn|"+fn.File+"|"+fn.Name, len(fn.Refs) > 0, desc)
		c.dist("static", "functions")
		for _, s := range sinks {
			c.violation("c27-sink-reference", fmt.Sprintf("%s:%d: function %s references the output sink %s: with Config.Logger = nil the engine can write to stdout/stderr", fn.File, fn.Line, fn.Name, s),
				map[string]any{"file": fn.File, "function": fn.Name, "line": fn.Line, "sink": s})
		}
	}
	sh.add(c, fmt.Sprintf("LCount %s", coqNat(len(fns))), map[string]any{"kind": "count", "functions": len(fns)})
	if nilLogger == "" {
		c.violation("c27-nil-logger", "NewBloomSearchEngine has no `if logger == nil { logger = <expr> }` statement: what the engine logs to when Config.Logger is nil is not evident", nil)
	} else {
		sh.add(c, "LNilLogger ("+nilLogger+")", map[string]any{"kind": "nil-logger", "expr": nilLoggerText})
		c.count([]string{"C27"}, "nil-logger|"+nilLoggerText, true, map[string]any{"kind": "nil-logger", "expr": nilLoggerText})
		if nilLogger != `GCall (GRef "log/slog" "New") [GRef "log/slog" "DiscardHandler"]` {
			c.violation("c27-nil-logger", "NewBloomSearchEngine: with Config.Logger = nil the logger is "+nilLoggerText+", not slog.New(slog.DiscardHandler)", map[string]any{"expr": nilLoggerText})
		}
	}

	// ---- the translator's constants against the compiled package (Generated/Consts.v is what other
	// families' theorems are parametric in; a translator that misreads a constant shows up here)
	consts := bs.VerifConsts()
	consts["LengthPrefixSize"], consts["HashSize"], consts["VersionPrefixSize"] = bs.LengthPrefixSize, bs.HashSize, bs.VersionPrefixSize
	consts["FileVersion"] = int64(bs.FileVersion)
	probe, err := bs.NewBloomSearchEngine(bs.DefaultBloomSearchEngineConfig(), bs.NewMemoryMetaStore(), newMemDataStore())
	must(err)
	consts["flush_chan_cap"] = int64(probe.VerifFlushChanCap())
	for _, name := range sortedKeys(consts) {
		sh.add(c, fmt.Sprintf("LConst %s (%d)%%Z", coqStringLit(name), consts[name]), map[string]any{"kind": "const", "name": name, "runtime_value": consts[name]})
		c.dist("static", "constants")
	}
	sh.add(c, "LMagic "+coqS(bs.MagicBytes), map[string]any{"kind": "const", "name": "MagicBytes", "runtime_value": bs.MagicBytes})

	// ---- dynamic
	exe, err := os.Executable()
	must(err)
	run := func(mode string) (stdout, stderr []byte, recs []c27Record) {
		dir := filepath.Join(c.Out, "child-"+mode)
		must(os.MkdirAll(dir, 0o755))
		so, err := os.Create(filepath.Join(dir, "fd1"))
		must(err)
		se, err := os.Create(filepath.Join(dir, "fd2"))
		must(err)
		cmd := exec.Command(exe, "c27child", "-tier", c.Tier, "-seed", fmt.Sprint(c.Seed), "-out", dir)
		cmd.Stdout, cmd.Stderr, cmd.Stdin = so, se, nil // *os.File: the child's descriptors 1 and 2 are these files
		cmd.Env = append(os.Environ(), "BSVERIF_C27_MODE="+mode)
		runErr := cmd.Run()
		so.Close()
		se.Close()
		stdout, _ = os.ReadFile(filepath.Join(dir, "fd1"))
		stderr, _ = os.ReadFile(filepath.Join(dir, "fd2"))
		if runErr != nil {
			panic(fmt.Sprintf("c27: child (%s) failed: %v\nstderr: %s", mode, runErr, tail(string(stderr), 3000)))
		}
		data, err := os.ReadFile(filepath.Join(dir, "scenarios.json"))
		if err == nil {
			must(json.Unmarshal(data, &recs))
		}
		return
	}
	so, se, _ := run("selftest")
	if len(so) == 0 || len(se) == 0 {
		panic("c27: positive control failed: the child wrote to fd 1 and fd 2 but the capture files are empty")
	}
	so, se, recs := run("run")
	for _, r := range recs {
		desc := map[string]any{"kind": "history", "scenario": r.Name, "outcome": r.Outcome, "log_records_with_logger": r.Logged,
			"fd1_bytes": r.Fd1, "fd2_bytes": r.Fd2}
		c.count([]string{"C27"}, "hist|"+r.Name, r.LoggedTotal > 0 || r.Errored, desc)
		c.dist("history", r.Group)
		for k, v := range r.Logged {
			for i := 0; i < v; i++ {
				c.dist("log_records_with_logger", k)
			}
		}
		c.rep.TracesValidated++
		if r.Fd1 > 0 || r.Fd2 > 0 {
			c.violation("c27-output", fmt.Sprintf("history %q with Config.Logger = nil wrote %d bytes to stdout and %d bytes to stderr", r.Name, r.Fd1, r.Fd2), desc)
		}
	}
	if len(recs) == 0 {
		panic("c27: the child reported no history")
	}
	if len(so) > 0 || len(se) > 0 {
		c.violation("c27-output", fmt.Sprintf("the child process running engine histories with Config.Logger = nil wrote %d bytes to stdout and %d bytes to stderr", len(so), len(se)),
			map[string]any{"stdout_head": head(string(so), 400), "stderr_head": head(string(se), 400)})
	}
}

func head(s string, n int) string {
	if len(s) > n {
		return s[:n]
	}
	return s
}

func tail(s string, n int) string {
	if len(s) > n {
		return s[len(s)-n:]
	}
	return s
}

// ---------------------------------------------------------------- the child

type c27Record struct {
	Name        string         `json:"name"`
	Group       string         `json:"group"`
	Outcome     string         `json:"outcome"`
	Errored     bool           `json:"errored"`
	Logged      map[string]int `json:"logged"` // level: message -> records, from the run with a recording logger
	LoggedTotal int            `json:"logged_total"`
	Fd1         int64          `json:"fd1"` // bytes the nil-logger run added to fd 1
	Fd2         int64          `json:"fd2"`
}

type recHandler struct {
	mu   *sync.Mutex
	seen map[string]int
}

func (h recHandler) Enabled(context.Context, slog.Level) bool { return true }
func (h recHandler) Handle(_ context.Context, r slog.Record) error {
	h.mu.Lock()
	h.seen[r.Level.String()+": "+r.Message]++
	h.mu.Unlock()
	return nil
}
func (h recHandler) WithAttrs([]slog.Attr) slog.Handler { return h }
func (h recHandler) WithGroup(string) slog.Handler      { return h }

func fdSize(fd int) int64 {
	var st syscall.Stat_t
	if err := syscall.Fstat(fd, &st); err != nil {
		return -1
	}
	return st.Size
}

type c27Scenario struct {
	group string
	name  string
	run   func(logger *slog.Logger) (outcome string, errored bool)
}

func runC27Child(c *Ctx) {
	if os.Getenv("BSVERIF_C27_MODE") == "selftest" {
		syscall.Write(1, []byte("positive control: fd 1\n"))
		syscall.Write(2, []byte("positive control: fd 2\n"))
		return
	}
	var recs []c27Record
	scales := []int{1}
	if c.thorough() {
		scales = []int{1, 2, 4, 8, 16, 32}
	}
	for _, scale := range scales {
		c27Scale = scale
		for _, sc := range c27Scenarios(c) {
			if scale > 1 {
				sc.name += fmt.Sprintf(" [batches x%d]", scale)
			}
			recs = append(recs, c27RunScenario(sc))
		}
	}
	data, err := json.Marshal(recs)
	must(err)
	must(os.WriteFile(filepath.Join(c.Out, "scenarios.json"), data, 0o644))
}

func c27RunScenario(sc c27Scenario) c27Record {
	{
		rec := c27Record{Name: sc.name, Group: sc.group, Logged: map[string]int{}}
		h := recHandler{mu: &sync.Mutex{}, seen: rec.Logged}
		sc.run(slog.New(h)) // memory only
		h.mu.Lock()
		for _, v := range rec.Logged {
			rec.LoggedTotal += v
		}
		logged := map[string]int{}
		for k, v := range rec.Logged {
			logged[k] = v
		}
		h.mu.Unlock()
		rec.Logged = logged
		b1, b2 := fdSize(1), fdSize(2)
		rec.Outcome, rec.Errored = sc.run(nil) // the subject: Config.Logger = nil
		rec.Fd1, rec.Fd2 = fdSize(1)-b1, fdSize(2)-b2
		return rec
	}
}

// metaWrap: a MetaStore with injectable Update/iteration failures and a hook that rewrites
// what the iteration yields (to present files whose filters are missing).
type metaWrap struct {
	inner     bs.MetaStore
	mu        sync.Mutex
	updates   int
	updateErr func(nth int) error
	iterErrAt int // yield an error after this many files (-1: never)
	rewrite   func(*bs.MaybeFile)
}

func (m *metaWrap) Update(ctx context.Context, w []bs.WriteOperation, d []bs.DeleteOperation) error {
	m.mu.Lock()
	n := m.updates
	m.updates++
	f := m.updateErr
	m.mu.Unlock()
	if f != nil {
		if err := f(n); err != nil {
			return err
		}
	}
	return m.inner.Update(ctx, w, d)
}

func (m *metaWrap) GetMaybeFilesForQuery(ctx context.Context, q *bs.QueryPrefilter) iter.Seq2[bs.MaybeFile, error] {
	return func(yield func(bs.MaybeFile, error) bool) {
		i := 0
		for f, err := range m.inner.GetMaybeFilesForQuery(ctx, q) {
			if m.iterErrAt >= 0 && i == m.iterErrAt {
				yield(bs.MaybeFile{}, errors.New("injected MetaStore iteration failure"))
				return
			}
			i++
			if err == nil && m.rewrite != nil {
				m.rewrite(&f)
			}
			if !yield(f, err) {
				return
			}
		}
		if m.iterErrAt >= 0 && i <= m.iterErrAt {
			yield(bs.MaybeFile{}, errors.New("injected MetaStore iteration failure"))
		}
	}
}

type c27Rig struct {
	cfg   bs.BloomSearchEngineConfig
	meta  *metaWrap
	store *memDataStore
	eng   *bs.BloomSearchEngine
}

func newC27Rig(logger *slog.Logger, mutate func(*bs.BloomSearchEngineConfig)) *c27Rig {
	cfg := bs.DefaultBloomSearchEngineConfig()
	cfg.Logger = logger
	cfg.MaxBufferedTime = time.Hour
	cfg.MaxBufferedRows = 1 << 20
	cfg.MinMaxIndexes = []string{"n"}
	cfg.PartitionFunc = func(row map[string]any) string { s, _ := row["p"].(string); return s }
	if mutate != nil {
		mutate(&cfg)
	}
	r := &c27Rig{cfg: cfg, meta: &metaWrap{inner: bs.NewMemoryMetaStore(), iterErrAt: -1}, store: newMemDataStore()}
	eng, err := bs.NewBloomSearchEngine(cfg, r.meta, r.store)
	must(err)
	r.eng = eng
	return r
}

// c27Scale multiplies the size of every batch (thorough tier: the histories are run at several sizes)
var c27Scale = 1

func c27Rows(base, n int) []map[string]any {
	n *= c27Scale
	rows := make([]map[string]any, n)
	for i := range rows {
		rows[i] = map[string]any{"id": base + i, "n": base + i, "p": fmt.Sprintf("p%d", (base+i)%3),
			"msg": fmt.Sprintf("hello world w%d error", (base+i)%7), "user": map[string]any{"name": fmt.Sprintf("u%d", (base+i)%4)}}
	}
	return rows
}

func (r *c27Rig) ingestFlush(base, n int) error {
	done := make(chan error, 1)
	if err := r.eng.IngestRows(context.Background(), c27Rows(base, n), done); err != nil {
		return err
	}
	if err := r.eng.Flush(context.Background()); err != nil {
		return err
	}
	select {
	case err := <-done:
		return err
	case <-time.After(10 * time.Second):
		return errors.New("done channel silent")
	}
}

func (r *c27Rig) stop(d time.Duration) error {
	ctx, cancel := context.WithTimeout(context.Background(), d)
	defer cancel()
	return r.eng.Stop(ctx)
}

func c27Queries() []*bs.Query {
	return []*bs.Query{
		bs.NewQuery().Field("msg").Build(),
		bs.NewQuery().Token("hello").Build(),
		bs.NewQuery().FieldToken("user.name", "u1").Build(),
		bs.NewQuery().Match(bs.Or(bs.Field("nope"), bs.And(bs.Token("world"), bs.FieldToken("msg", "error")))).Build(),
		bs.NewQuery().FieldRegex("msg", "w[0-3]").Build(),
		bs.NewQuery().Token("absent-token").Build(),
		bs.NewQuery().MatchPrefilter(bs.PrefilterAnd(bs.Partition(bs.PartitionIn("p0", "p1")), bs.MinMax("n", bs.NumericGreaterThanEqual(2)))).Token("hello").Build(),
	}
}

// drain runs a query to its end and reports (rows, error)
func (r *c27Rig) drain(ctx context.Context, q *bs.Query) (int, error) {
	res, err := r.eng.Query(ctx, q)
	if err != nil {
		return 0, err
	}
	n := 0
	for res.Next() {
		_ = res.Row()
		n++
	}
	err = res.Err()
	_ = res.Stats()
	res.Close()
	return n, err
}

func (r *c27Rig) queryAll() (rows int, errs int) {
	for _, q := range c27Queries() {
		n, err := r.drain(context.Background(), q)
		rows += n
		if err != nil {
			errs++
		}
	}
	return
}

func c27Scenarios(c *Ctx) []c27Scenario {
	var out []c27Scenario
	add := func(group, name string, run func(logger *slog.Logger) (string, bool)) {
		out = append(out, c27Scenario{group, name, run})
	}
	comps := []bs.CompressionType{bs.CompressionNone, bs.CompressionSnappy, bs.CompressionZstd}

	// 1. healthy histories
	for i, comp := range comps {
		comp := comp
		add("healthy", fmt.Sprintf("healthy ingest/flush/query/merge/stop (%s)", comp), func(l *slog.Logger) (string, bool) {
			r := newC27Rig(l, func(cfg *bs.BloomSearchEngineConfig) { cfg.RowDataCompression = comp; cfg.MaxBufferedRows = 5 + i })
			r.eng.Start()
			for f := 0; f < 3; f++ {
				must(r.ingestFlush(f*20, 12))
			}
			rows, errs := r.queryAll()
			_, merr := r.eng.Merge(context.Background())
			rows2, errs2 := r.queryAll()
			serr := r.stop(10 * time.Second)
			return fmt.Sprintf("rows=%d/%d query_errors=%d merge=%v stop=%v", rows, rows2, errs+errs2, merr, serr), merr != nil || serr != nil || errs+errs2 > 0
		})
	}

	// 2. store faults during flush
	type fault struct {
		kind string
		nth  int
	}
	flushFaults := []fault{{"CreateFile", 0}, {"Write", 0}, {"Write", 1}, {"Write", 2}, {"Write", 3}, {"Close", 0}, {"Abort", 0}, {"Tombstone", 0}, {"MetaUpdate", 0}}
	for _, ft := range flushFaults {
		for _, withAbort := range []bool{true, false} {
			for _, nilDone := range []bool{false, true} {
				ft, withAbort, nilDone := ft, withAbort, nilDone
				add("flush-fault", fmt.Sprintf("flush with %s #%d failing (abort=%v, nil done channel=%v)", ft.kind, ft.nth, withAbort, nilDone), func(l *slog.Logger) (string, bool) {
					r := newC27Rig(l, nil)
					r.store.withAbort = withAbort
					failing := map[string]bool{ft.kind: true}
					if ft.kind == "Abort" || ft.kind == "Tombstone" { // cleanup failures need a primary failure first
						failing["Write"] = true
					}
					r.store.fault = func(kind string, nth int, _ string) error {
						if failing[kind] && (kind != ft.kind || nth == ft.nth) {
							return errInjected
						}
						return nil
					}
					if ft.kind == "MetaUpdate" {
						r.meta.updateErr = func(nth int) error {
							if nth == ft.nth {
								return errInjected
							}
							return nil
						}
					}
					r.eng.Start()
					var ferr error
					if nilDone {
						must(r.eng.IngestRows(context.Background(), c27Rows(0, 9), nil))
						ferr = r.eng.Flush(context.Background())
					} else {
						ferr = r.ingestFlush(0, 9)
					}
					r.store.fault, r.meta.updateErr = nil, nil
					ferr2 := r.ingestFlush(100, 5)
					_, qerrs := r.queryAll()
					serr := r.stop(10 * time.Second)
					return fmt.Sprintf("flush=%v next_flush=%v query_errors=%d stop=%v", ferr, ferr2, qerrs, serr), ferr != nil
				})
			}
		}
	}

	// 3. store faults during merge
	mergeFaults := []fault{{"OpenFile", 0}, {"OpenFile", 2}, {"Read", 0}, {"Read", 3}, {"CreateFile", 0}, {"Write", 0}, {"Write", 2}, {"Close", 0}, {"MetaUpdate", 0}, {"Tombstone", 0}, {"Tombstone", 1}}
	for _, ft := range mergeFaults {
		ft := ft
		add("merge-fault", fmt.Sprintf("merge with %s #%d failing", ft.kind, ft.nth), func(l *slog.Logger) (string, bool) {
			r := newC27Rig(l, nil)
			r.eng.Start()
			for f := 0; f < 3; f++ {
				must(r.ingestFlush(f*30, 8))
			}
			base := map[string]int{}
			r.store.mu.Lock()
			for k, v := range r.store.kindCount {
				base[k] = v
			}
			r.store.mu.Unlock()
			r.store.fault = func(kind string, nth int, _ string) error {
				if kind == ft.kind && nth-base[kind] == ft.nth {
					return errInjected
				}
				return nil
			}
			if ft.kind == "MetaUpdate" {
				first := true
				r.meta.updateErr = func(int) error {
					if first {
						first = false
						return errInjected
					}
					return nil
				}
			}
			_, merr := r.eng.Merge(context.Background())
			r.store.fault, r.meta.updateErr = nil, nil
			_, merr2 := r.eng.Merge(context.Background())
			rows, qerrs := r.queryAll()
			serr := r.stop(10 * time.Second)
			return fmt.Sprintf("merge=%v second_merge=%v rows=%d query_errors=%d stop=%v", merr, merr2, rows, qerrs, serr), merr != nil
		})
	}

	// 4. corrupt files
	for _, where := range []string{"rowdata", "filter-region", "footer", "truncate-half", "truncate-8", "empty", "garbage"} {
		for _, comp := range comps[:2] {
			where, comp := where, comp
			add("corrupt", fmt.Sprintf("query and merge over a corrupt file (%s, %s)", where, comp), func(l *slog.Logger) (string, bool) {
				r := newC27Rig(l, func(cfg *bs.BloomSearchEngineConfig) { cfg.RowDataCompression = comp })
				r.eng.Start()
				must(r.ingestFlush(0, 10))
				must(r.ingestFlush(50, 10))
				var md bs.FileMetadata
				var ptr string
				for f, err := range r.meta.inner.GetMaybeFilesForQuery(context.Background(), nil) {
					must(err)
					md, ptr = f.Metadata, string(f.PointerBytes)
					break
				}
				r.store.mu.Lock()
				data := append([]byte(nil), r.store.files[ptr]...)
				switch where {
				case "rowdata":
					data[md.DataBlocks[0].RowDataOffset+md.DataBlocks[0].RowDataSize/2] ^= 0x5a
				case "filter-region":
					data[md.BlockFilterRegionOffset+md.BlockFilterRegionSize/2] ^= 0x5a
				case "footer":
					data[len(data)-20] ^= 0x5a
				case "truncate-half":
					data = data[:len(data)/2]
				case "truncate-8":
					data = data[:len(data)-8]
				case "empty":
					data = nil
				case "garbage":
					for i := range data {
						data[i] = byte(i * 31)
					}
				}
				r.store.files[ptr] = data
				r.store.mu.Unlock()
				rows, qerrs := r.queryAll()
				_, merr := r.eng.Merge(context.Background())
				serr := r.stop(10 * time.Second)
				return fmt.Sprintf("rows=%d query_errors=%d merge=%v stop=%v", rows, qerrs, merr, serr), qerrs > 0 || merr != nil
			})
		}
	}

	// 5. missing filters: the "bloom filter missing; cannot disqualify" path, file level and block level
	for _, mode := range []string{"file-level filters absent", "first block without filter section", "all blocks without filter section", "file and blocks"} {
		mode := mode
		add("missing-filters", "queries over files whose filters are missing ("+mode+")", func(l *slog.Logger) (string, bool) {
			r := newC27Rig(l, nil)
			r.eng.Start()
			must(r.ingestFlush(0, 12))
			must(r.ingestFlush(40, 12))
			r.meta.rewrite = func(f *bs.MaybeFile) {
				if strings.HasPrefix(mode, "file") {
					f.Metadata.BloomFilters = bs.BloomFilters{}
				}
				blocks := append([]bs.DataBlockMetadata(nil), f.Metadata.DataBlocks...)
				for i := range blocks {
					if mode == "all blocks without filter section" || mode == "file and blocks" || (mode == "first block without filter section" && i == 0) {
						blocks[i].BloomFilterSize, blocks[i].BloomFilterOffset = 0, 0
					}
				}
				f.Metadata.DataBlocks = blocks
			}
			rows, qerrs := r.queryAll()
			serr := r.stop(10 * time.Second)
			return fmt.Sprintf("rows=%d query_errors=%d stop=%v", rows, qerrs, serr), qerrs > 0
		})
	}
	// a file written with a filter section that carries no filter at all is not something the engine writes;
	// a partially present section is covered by the block-level case above through ReadDataBlockBloomFilters' empty result.

	// 6. Stop with an expired deadline while the store is wedged
	for _, variant := range []string{"wedged CreateFile", "wedged Write", "abandoned unbuffered done channel"} {
		variant := variant
		add("stop-deadline", "Stop with an expired deadline: "+variant, func(l *slog.Logger) (string, bool) {
			r := newC27Rig(l, func(cfg *bs.BloomSearchEngineConfig) { cfg.IngestBufferSize = 2 })
			release := make(chan struct{})
			entered := make(chan struct{}, 16)
			wedgeKind := "CreateFile"
			if variant == "wedged Write" {
				wedgeKind = "Write"
			}
			if variant != "abandoned unbuffered done channel" {
				r.store.onCall = func(kind, _ string) {
					if kind == wedgeKind {
						select {
						case entered <- struct{}{}:
						default:
						}
						<-release
					}
				}
			}
			r.eng.Start()
			var wg sync.WaitGroup
			flushErrs := make([]error, 4)
			if variant == "abandoned unbuffered done channel" {
				must(r.eng.IngestRows(context.Background(), c27Rows(0, 5), make(chan error))) // nobody receives
			}
			for i := 0; i < 4; i++ {
				// bounded wait: with another pipeline shape (e.g. an unbuffered flush channel) the
				// ingest buffer may be full by now; the history goes on either way
				ictx, icancel := context.WithTimeout(context.Background(), 500*time.Millisecond)
				_ = r.eng.IngestRows(ictx, c27Rows(10*i+100, 4), make(chan error, 1))
				icancel()
				wg.Add(1)
				go func(i int) {
					defer wg.Done()
					flushErrs[i] = r.eng.Flush(context.Background())
				}(i)
				if i == 0 && variant != "abandoned unbuffered done channel" {
					select {
					case <-entered:
					case <-time.After(5 * time.Second):
					}
				} else {
					time.Sleep(15 * time.Millisecond)
				}
			}
			ctx, cancel := context.WithDeadline(context.Background(), time.Now().Add(-time.Second))
			serr := r.eng.Stop(ctx)
			cancel()
			_, ierr := 0, r.eng.IngestRows(context.Background(), c27Rows(900, 1), nil)
			ferr := r.eng.Flush(context.Background())
			close(release)
			waited := make(chan struct{})
			go func() { wg.Wait(); close(waited) }()
			select {
			case <-waited:
			case <-time.After(5 * time.Second):
			}
			time.Sleep(30 * time.Millisecond) // let the workers run off the end of their queues
			serr2 := r.stop(2 * time.Second)
			return fmt.Sprintf("stop=%v ingest_after=%v flush_after=%v second_stop=%v", serr, ierr, ferr, serr2), serr != nil
		})
	}

	// 7. query errors
	add("query-error", "invalid regex", func(l *slog.Logger) (string, bool) {
		r := newC27Rig(l, nil)
		r.eng.Start()
		must(r.ingestFlush(0, 6))
		_, err := r.drain(context.Background(), bs.NewQuery().FieldRegex("msg", "(unclosed").Build())
		_, err2 := r.drain(context.Background(), &bs.Query{Regex: &bs.RegexQuery{Expression: &bs.RegexExpression{ExpressionType: "bogus"}}})
		serr := r.stop(10 * time.Second)
		return fmt.Sprintf("query=%v unknown_expression=%v stop=%v", err, err2, serr), err != nil
	})
	for _, at := range []int{0, 1} {
		at := at
		add("query-error", fmt.Sprintf("MetaStore iteration fails after %d files", at), func(l *slog.Logger) (string, bool) {
			r := newC27Rig(l, nil)
			r.eng.Start()
			must(r.ingestFlush(0, 6))
			must(r.ingestFlush(20, 6))
			r.meta.iterErrAt = at
			_, qerrs := r.queryAll()
			_, merr := r.eng.Merge(context.Background())
			serr := r.stop(10 * time.Second)
			return fmt.Sprintf("query_errors=%d merge=%v stop=%v", qerrs, merr, serr), qerrs > 0
		})
	}
	for _, ft := range []fault{{"OpenFile", 0}, {"OpenFile", 1}, {"Read", 0}, {"Read", 2}, {"Read", 5}} {
		ft := ft
		add("query-error", fmt.Sprintf("query with %s #%d failing", ft.kind, ft.nth), func(l *slog.Logger) (string, bool) {
			r := newC27Rig(l, nil)
			r.eng.Start()
			must(r.ingestFlush(0, 9))
			must(r.ingestFlush(30, 9))
			total := 0
			for _, q := range c27Queries() {
				r.store.mu.Lock()
				base := r.store.kindCount[ft.kind]
				r.store.mu.Unlock()
				r.store.fault = func(kind string, nth int, _ string) error {
					if kind == ft.kind && nth-base == ft.nth {
						return errInjected
					}
					return nil
				}
				if _, err := r.drain(context.Background(), q); err != nil {
					total++
				}
			}
			r.store.fault = nil
			serr := r.stop(10 * time.Second)
			return fmt.Sprintf("query_errors=%d stop=%v", total, serr), total > 0
		})
	}
	add("query-error", "cancelled and abandoned queries", func(l *slog.Logger) (string, bool) {
		r := newC27Rig(l, func(cfg *bs.BloomSearchEngineConfig) { cfg.MaxQueryConcurrency = 2 })
		r.eng.Start()
		for f := 0; f < 4; f++ {
			must(r.ingestFlush(f*100, 80))
		}
		ctx, cancel := context.WithCancel(context.Background())
		cancel()
		_, err1 := r.drain(ctx, c27Queries()[1])
		ctx2, cancel2 := context.WithCancel(context.Background())
		res, err := r.eng.Query(ctx2, c27Queries()[1])
		must(err)
		res.Next()
		cancel2()
		for res.Next() {
		}
		err2 := res.Err()
		res.Close()
		res3, err := r.eng.Query(context.Background(), c27Queries()[0])
		must(err)
		res3.Next()
		res3.Close() // early Close
		res3.Close()
		err3 := res3.Err()
		_, err4 := r.drain(context.Background(), nil)
		serr := r.stop(10 * time.Second)
		return fmt.Sprintf("precancelled=%v cancelled_midway=%v closed_early=%v nil_query=%v stop=%v", err1, err2, err3, err4, serr), err1 != nil || err2 != nil
	})

	// 8. the filesystem store, healthy and damaged
	for _, damage := range []string{"none", "truncate", "remove", "garbage"} {
		damage := damage
		add("filesystem", "FileSystemDataStore as data and meta store, damage: "+damage, func(l *slog.Logger) (string, bool) {
			dir, err := os.MkdirTemp(c.Out, "fs-")
			must(err)
			defer os.RemoveAll(dir)
			fs := bs.NewFileSystemDataStore(dir)
			cfg := bs.DefaultBloomSearchEngineConfig()
			cfg.Logger = l
			cfg.MaxBufferedTime = time.Hour
			eng, err := bs.NewBloomSearchEngine(cfg, fs, fs)
			must(err)
			eng.Start()
			r := &c27Rig{cfg: cfg, eng: eng}
			must(r.ingestFlush(0, 10))
			must(r.ingestFlush(40, 10))
			var files []string
			filepath.WalkDir(dir, func(p string, d os.DirEntry, err error) error {
				if err == nil && !d.IsDir() {
					files = append(files, p)
				}
				return nil
			})
			if len(files) > 0 {
				switch damage {
				case "truncate":
					st, _ := os.Stat(files[0])
					os.Truncate(files[0], st.Size()/2)
				case "remove":
					os.Remove(files[0])
				case "garbage":
					os.WriteFile(files[0], []byte("this is not a bloomsearch file at all, not even close"), 0o644)
				}
			}
			rows, qerrs := r.queryAll()
			_, merr := eng.Merge(context.Background())
			rows2, qerrs2 := r.queryAll()
			serr := r.stop(10 * time.Second)
			return fmt.Sprintf("files=%d rows=%d/%d query_errors=%d/%d merge=%v stop=%v", len(files), rows, rows2, qerrs, qerrs2, merr, serr), qerrs+qerrs2 > 0 || merr != nil
		})
	}

	// 9. lifecycle corners and rejected input
	add("lifecycle", "never started, stopped twice, use after stop, invalid configurations, unserializable row", func(l *slog.Logger) (string, bool) {
		r := newC27Rig(l, nil)
		e1 := r.eng.IngestRows(context.Background(), c27Rows(0, 2), make(chan error, 1))
		s1 := r.stop(200 * time.Millisecond)
		s2 := r.stop(200 * time.Millisecond)
		e2 := r.eng.IngestRows(context.Background(), c27Rows(0, 2), nil)
		e3 := r.eng.Flush(context.Background())
		r.eng.Start()
		bad := bs.DefaultBloomSearchEngineConfig()
		bad.Logger = l
		bad.BloomFalsePositiveRate = 2
		_, e4 := bs.NewBloomSearchEngine(bad, r.meta, r.store)
		bad = bs.DefaultBloomSearchEngineConfig()
		bad.Tokenizer = nil
		_, e5 := bs.NewBloomSearchEngine(bad, r.meta, r.store)
		r2 := newC27Rig(l, nil)
		r2.eng.Start()
		r2.eng.Start()
		done := make(chan error, 1)
		must(r2.eng.IngestRows(context.Background(), []map[string]any{{"f": func() {}}}, done))
		e6 := <-done
		done2 := make(chan error, 1)
		must(r2.eng.IngestRows(context.Background(), nil, done2))
		e7 := <-done2
		_, m1 := r2.eng.Merge(context.Background())
		s3 := r2.stop(5 * time.Second)
		return fmt.Sprintf("ingest_unstarted=%v stop=%v stop2=%v ingest_stopped=%v flush_stopped=%v bad_rate=%v nil_tokenizer=%v unserializable=%v empty_batch=%v empty_merge=%v stop3=%v",
			e1, s1, s2, e2, e3, e4, e5, e6, e7, m1, s3), true
	})
	// auto flush by limits and by time, with Debug records on the way
	add("healthy", "flushes triggered by row, byte and time limits", func(l *slog.Logger) (string, bool) {
		r := newC27Rig(l, func(cfg *bs.BloomSearchEngineConfig) {
			cfg.MaxBufferedRows = 7
			cfg.MaxRowGroupRows = 5
			cfg.MaxBufferedBytes = 2000
			cfg.MaxBufferedTime = 150 * time.Millisecond
		})
		r.eng.Start()
		done := make(chan error, 64)
		for i := 0; i < 12; i++ {
			must(r.eng.IngestRows(context.Background(), c27Rows(i*5, 1+i%4), done))
		}
		time.Sleep(400 * time.Millisecond)
		rows, qerrs := r.queryAll()
		serr := r.stop(10 * time.Second)
		return fmt.Sprintf("rows=%d query_errors=%d stop=%v", rows, qerrs, serr), false
	})
	// 10. random histories: operation sequences with faults, corruption and missing filters drawn from the seed
	for i := 0; i < c.pick(500, 1500); i++ {
		seed1, seed2 := c.rng.Uint64(), c.rng.Uint64()
		add("random", fmt.Sprintf("random history %d", i), func(l *slog.Logger) (string, bool) {
			return c27RandomHistory(rand.New(rand.NewPCG(seed1, seed2)), l)
		})
	}
	return out
}

// c27RandomHistory runs one random operation sequence. The same (seed1, seed2) gives the same
// sequence for the recording run and for the nil-logger run.
func c27RandomHistory(rng *rand.Rand, l *slog.Logger) (string, bool) {
	comps := []bs.CompressionType{bs.CompressionNone, bs.CompressionSnappy, bs.CompressionZstd}
	mutate := func(cfg *bs.BloomSearchEngineConfig) {
		cfg.RowDataCompression = comps[rng.IntN(3)]
		cfg.MaxBufferedRows = 3 + rng.IntN(40)
		cfg.MaxRowGroupRows = 2 + rng.IntN(30)
		cfg.MaxQueryConcurrency = 1 + rng.IntN(4)
		cfg.BloomFalsePositiveRate = []float64{0.5, 0.1, 0.01, 0.001}[rng.IntN(4)]
	}
	r := newC27Rig(l, mutate)
	r.store.withAbort = rng.IntN(2) == 0
	r.eng.Start()
	kinds := []string{"CreateFile", "Write", "Close", "Abort", "Tombstone", "OpenFile", "Read"}
	errs, base := 0, 0
	note := func(err error) {
		if err != nil {
			errs++
		}
	}
	armFault := func() {
		kind, nth := kinds[rng.IntN(len(kinds))], rng.IntN(4)
		r.store.mu.Lock()
		from := r.store.kindCount[kind]
		r.store.mu.Unlock()
		r.store.fault = func(k string, n int, _ string) error {
			if k == kind && n-from == nth {
				return errInjected
			}
			return nil
		}
	}
	var log []string
	nOps := 4 + rng.IntN(12)
	for op := 0; op < nOps; op++ {
		if rng.IntN(3) == 0 {
			armFault()
		}
		if rng.IntN(8) == 0 {
			r.meta.updateErr = func(int) error { return errInjected }
		}
		switch k := rng.IntN(9); k {
		case 0, 1, 2:
			log = append(log, "flush")
			note(r.ingestFlush(base, 1+rng.IntN(12)))
			base += 20
		case 3:
			log = append(log, "ingest-nil-done")
			note(r.eng.IngestRows(context.Background(), c27Rows(base, 1+rng.IntN(6)), nil))
			base += 20
		case 4, 5:
			log = append(log, "query")
			qs := c27Queries()
			ctx, cancel := context.WithCancel(context.Background())
			if rng.IntN(6) == 0 {
				cancel()
			}
			_, err := r.drain(ctx, qs[rng.IntN(len(qs))])
			cancel()
			note(err)
		case 6:
			log = append(log, "merge")
			_, err := r.eng.Merge(context.Background())
			note(err)
		case 7:
			log = append(log, "corrupt")
			r.store.mu.Lock()
			names := sortedKeys(r.store.files)
			if len(names) > 0 {
				name := names[rng.IntN(len(names))]
				data := append([]byte(nil), r.store.files[name]...)
				switch {
				case len(data) == 0:
				case rng.IntN(3) == 0:
					data = data[:rng.IntN(len(data))]
				default:
					data[rng.IntN(len(data))] ^= byte(1 + rng.IntN(255))
				}
				r.store.files[name] = data
			}
			r.store.mu.Unlock()
		case 8:
			log = append(log, "strip-filters")
			fileLevel, blockLevel := rng.IntN(2) == 0, rng.IntN(2) == 0
			r.meta.rewrite = func(f *bs.MaybeFile) {
				if fileLevel {
					f.Metadata.BloomFilters = bs.BloomFilters{}
				}
				if blockLevel {
					blocks := append([]bs.DataBlockMetadata(nil), f.Metadata.DataBlocks...)
					for i := range blocks {
						if i%2 == 0 {
							blocks[i].BloomFilterSize, blocks[i].BloomFilterOffset = 0, 0
						}
					}
					f.Metadata.DataBlocks = blocks
				}
			}
		}
		r.store.fault, r.meta.updateErr = nil, nil
	}
	var serr error
	if rng.IntN(4) == 0 {
		must(r.eng.IngestRows(context.Background(), c27Rows(base, 3), nil))
		ctx, cancel := context.WithDeadline(context.Background(), time.Now().Add(-time.Second))
		serr = r.eng.Stop(ctx)
		cancel()
		time.Sleep(5 * time.Millisecond)
	} else {
		serr = r.stop(10 * time.Second)
	}
	note(serr)
	return fmt.Sprintf("ops=%s errors=%d stop=%v", strings.Join(log, ","), errs, serr), errs > 0
}
