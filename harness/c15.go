package main

// C15: crash consistency of FileSystemDataStore used as both stores. A real engine runs a
// history (ingest+flush, flushes failed by injected os errors, merges) on a scratch directory.
// The hook sink turns every os.* call into a label and snapshots the directory at every
// boundary; a replica of the crash semantics (volatile/durable directory, pending entry changes,
// per-inode durable/volatile bytes) is driven by the same labels and checked against the real
// directory at every boundary. For every boundary and crash outcome (process crash; power loss:
// choices of not-yet-durable entry changes x none/all/cut of unsynced bytes) the image is
// materialised, a fresh engine is opened on it and queried: only complete readable files, every
// acknowledged row, no invented row, no duplicate. The label log and the probes go to Coq
// (Cases/RunnerFC.v): log = run of Model/FsStore.v under the engine discipline, image within the
// model's crash relation, model recovery = real scan, property on what the fresh engine saw.

import (
	"bytes"
	"context"
	"fmt"
	"io"
	"iter"
	"os"
	"path/filepath"
	"sort"
	"strings"
	"time"

	bs "github.com/danthegoodman1/bloomsearch"
)

func init() { register("c15", []string{"C15"}, runC15) }

const runnerFC = "Model.FsStore Model.FsCrash Cases.RunnerF Cases.RunnerFC"
const sigD3 = "fs-metastore-merge-window"

// ---------------------------------------------------------------- replica of the crash semantics

type simInode struct{ data, dur []byte }

type simPend struct {
	name string
	ino  int // -1 = removed
}

type simFS struct {
	dir, ddir map[string]int
	pend      []simPend
	inodes    []*simInode
	wbase     map[int]string // writer id -> base
	wino      map[int]int    // writer id -> inode of its temp file
}

func newSimFS() *simFS {
	return &simFS{dir: map[string]int{}, ddir: map[string]int{}, wbase: map[int]string{}, wino: map[int]int{}}
}

func (f *simFS) create(name string) {
	f.inodes = append(f.inodes, &simInode{})
	i := len(f.inodes) - 1
	f.dir[name] = i
	f.pend = append(f.pend, simPend{name, i})
}

func (f *simFS) unlink(name string) {
	if _, ok := f.dir[name]; ok {
		delete(f.dir, name)
		f.pend = append(f.pend, simPend{name, -1})
	}
}

func (f *simFS) apply(l fsLabel) {
	switch l.K {
	case "Reserve":
		if l.R == "COk" {
			f.wbase[l.A] = l.Base
			f.create(l.Base + ".dat")
		}
	case "Unreserve":
		if l.R == "ROk" {
			f.unlink(f.wbase[l.A] + ".dat")
		}
	case "TmpCreate":
		if l.R == "COk" {
			f.create(f.wbase[l.A] + ".tmp")
		}
	case "Write":
		if l.N > 0 {
			// the writer's own inode: the one its handle holds (bound at creation)
			ino := f.tmpInode(l.A)
			f.inodes[ino].data = append(f.inodes[ino].data, l.Bytes[:l.N]...)
		}
	case "Sync":
		if l.Ok {
			ino := f.tmpInode(l.A)
			f.inodes[ino].dur = append([]byte(nil), f.inodes[ino].data...)
		}
	case "Rename":
		if l.Ok {
			b := f.wbase[l.A]
			i := f.dir[b+".tmp"]
			f.dir[b+".dat"] = i
			delete(f.dir, b+".tmp")
			f.pend = append(f.pend, simPend{b + ".dat", i}, simPend{b + ".tmp", -1})
		}
	case "DirSync":
		if l.Ok {
			f.ddir = map[string]int{}
			for k, v := range f.dir {
				f.ddir[k] = v
			}
			f.pend = nil
		}
	case "AbortRm":
		if l.R == "ROk" {
			f.unlink(f.wbase[l.A] + "." + strings.ToLower(l.Ext))
		}
	case "Rm":
		if l.R == "ROk" {
			f.unlink(l.Base + "." + strings.ToLower(l.Ext))
		}
	}
}

// tmpInode: the inode created by writer a's TmpCreate (tracked separately because names move)
func (f *simFS) tmpInode(a int) int { return f.wino[a] }

// ---------------------------------------------------------------- one history

type c15Image struct {
	Kind    string            `json:"kind"` // proc | power
	K       int               `json:"k"`
	Files   map[string][]byte `json:"-"`
	Summary []string          `json:"files"`
}

type c15Merge struct {
	publishPos int   // log position after the output's rename (visible to scans from here on)
	donePos    int   // log position after the last removal of a source
	srcRows    []int // rows of its sources
}

type c15Hist struct {
	c      *Ctx
	r      *fsRig
	dir    string
	log    []string // coq terms of elabels
	labels []fsLabel
	acks   map[int]int // log position (number of entries before it) -> unused
	in     *interner
	sim    *simFS
	// engine bookkeeping
	lastCreated  int
	writerRows   map[int][]int // writer id -> row ids in its file
	baseWriter   map[string]int
	ackedAt      []ackRec
	ingested     map[int]bool
	merges       []c15Merge
	hasMerge     bool
	createFault  *fsFault
	closeFault   int
	writeFault   bool
	boundaryBad  string
	pendingRows  []int // rows of the flush or merge in progress
	replicaFails int
}

type ackRec struct {
	pos  int
	rows []int
}

// every label: append to the log, drive the replica, compare it with the real directory
func (h *c15Hist) record(ls []fsLabel) {
	for _, l := range ls {
		h.labels = append(h.labels, l)
		h.log = append(h.log, "EL ("+l.coq(h.in)+")")
		h.simApply(l)
	}
}

func (h *c15Hist) simApply(l fsLabel) {
	if l.K == "TmpCreate" && l.R == "COk" {
		h.sim.apply(l)
		h.sim.wino[l.A] = len(h.sim.inodes) - 1
		return
	}
	h.sim.apply(l)
}

func (h *c15Hist) checkReplica(where string) {
	real := snapshotDir(h.dir)
	want := map[string][]byte{}
	for name, i := range h.sim.dir {
		want[name] = h.sim.inodes[i].data
	}
	ok := len(real) == len(want)
	for _, e := range real {
		d, present := want[e.Base+"."+strings.ToLower(e.Ext)]
		ok = ok && present && bytes.Equal(d, e.Data)
	}
	if !ok && h.boundaryBad == "" {
		h.boundaryBad = fmt.Sprintf("%s: real directory %v, replica %v", where, listNames(real), sortedKeys(want))
	}
}

func listNames(es []dirEntry) []string {
	var out []string
	for _, e := range es {
		out = append(out, fmt.Sprintf("%s.%s:%d", e.Base, strings.ToLower(e.Ext), len(e.Data)))
	}
	return out
}

// ---------------------------------------------------------------- the store the engine sees

type c15Store struct{ h *c15Hist }

type c15Writer struct {
	h  *c15Hist
	fw *fsWriter
}

func (s *c15Store) CreateFile(ctx context.Context) (io.WriteCloser, []byte, error) {
	h := s.h
	fw, res := h.r.createFile(ctx, h.createFault)
	h.createFault = nil
	h.record(res.labels)
	h.checkReplica("CreateFile")
	if fw == nil {
		return nil, nil, res.err
	}
	h.lastCreated = fw.id
	h.writerRows[fw.id] = append([]int(nil), h.pendingRows...)
	h.baseWriter[fw.base] = fw.id
	return &c15Writer{h: h, fw: fw}, h.r.pointer(fw.base), nil
}

var errC15Write = fmt.Errorf("injected short write")

func (w *c15Writer) Write(p []byte) (int, error) {
	h := w.h
	if h.writeFault && len(p) > 1 {
		h.writeFault = false
		n, res := h.r.write(w.fw, p[:len(p)/2])
		h.record(res.labels)
		return n, errC15Write
	}
	n, res := h.r.write(w.fw, p)
	h.record(res.labels)
	return n, res.err
}

func (w *c15Writer) Close() error {
	h := w.h
	f := h.closeFault
	h.closeFault = -1
	res := h.r.closeWriter(w.fw, f)
	h.record(res.labels)
	h.checkReplica("Close")
	return res.err
}

func (w *c15Writer) Abort() error {
	h := w.h
	res := h.r.abortWriter(w.fw, -1)
	h.record(res.labels)
	h.checkReplica("Abort")
	return res.err
}

func (s *c15Store) OpenFile(ctx context.Context, p []byte) (io.ReadSeekCloser, error) {
	return s.h.r.store.OpenFile(ctx, p)
}

func (s *c15Store) TombstoneFile(ctx context.Context, p []byte) error {
	h := s.h
	base, _, _ := splitName(string(p))
	res := h.r.tombstone(ctx, base, -1)
	h.record(res.labels)
	h.checkReplica("TombstoneFile")
	return res.err
}

func (s *c15Store) GetMaybeFilesForQuery(ctx context.Context, q *bs.QueryPrefilter) iter.Seq2[bs.MaybeFile, error] {
	return s.h.r.store.GetMaybeFilesForQuery(ctx, q)
}

func (s *c15Store) Update(ctx context.Context, writes []bs.WriteOperation, deletes []bs.DeleteOperation) error {
	h := s.h
	var bases []string
	for _, d := range deletes {
		b, _, _ := splitName(string(d.FilePointerBytes))
		bases = append(bases, b)
	}
	if len(bases) == 0 {
		return h.r.store.Update(ctx, writes, deletes)
	}
	res := h.r.update(ctx, bases)
	h.record(res.labels)
	h.checkReplica("Update")
	return res.err
}

// ---------------------------------------------------------------- crash images

// powerImages enumerates (or samples) the outcomes of a power loss in replica state f.
func powerImages(c *Ctx, f *simFS, all bool) []map[string][]byte {
	names := map[string][]int{}
	for n, i := range f.ddir {
		names[n] = []int{i}
	}
	for n := range f.dir {
		if _, ok := names[n]; !ok {
			names[n] = []int{-1}
		}
	}
	for _, p := range f.pend {
		if _, ok := names[p.name]; !ok {
			names[p.name] = []int{-1}
		}
		names[p.name] = append(names[p.name], p.ino)
	}
	keys := sortedKeys(names)
	content := func(i int, mode int) []byte {
		in := f.inodes[i]
		switch mode {
		case 0:
			return in.dur
		case 1:
			return in.data
		}
		tail := len(in.data) - len(in.dur)
		return in.data[:len(in.dur)+tail/2]
	}
	build := func(pick func(n string, ch []int) int, mode func(i int) int) map[string][]byte {
		img := map[string][]byte{}
		for _, n := range keys {
			i := pick(n, names[n])
			if i >= 0 {
				img[n] = content(i, mode(i))
			}
		}
		return img
	}
	var out []map[string][]byte
	first := func(n string, ch []int) int { return ch[0] }
	last := func(n string, ch []int) int { return ch[len(ch)-1] }
	out = append(out, build(first, func(int) int { return 0 })) // nothing that was not fsynced
	out = append(out, build(last, func(int) int { return 2 }))  // every entry change, data cut
	total := 1
	for _, n := range keys {
		total *= len(names[n])
		if total > 64 {
			break
		}
	}
	if all && total <= 64 {
		idx := make([]int, len(keys))
		for {
			for mode := 0; mode < 3; mode++ {
				m := mode
				out = append(out, build(func(n string, ch []int) int {
					for k, kn := range keys {
						if kn == n {
							return ch[idx[k]]
						}
					}
					return -1
				}, func(int) int { return m }))
			}
			k := 0
			for k < len(keys) {
				idx[k]++
				if idx[k] < len(names[keys[k]]) {
					break
				}
				idx[k] = 0
				k++
			}
			if k == len(keys) {
				break
			}
		}
		return out
	}
	n := 2
	if all {
		n = 12
	}
	for j := 0; j < n; j++ {
		out = append(out, build(func(_ string, ch []int) int { return ch[c.intn(len(ch))] }, func(int) int { return c.intn(3) }))
	}
	return out
}

// recoverImage materialises an image, opens a fresh engine on it and queries everything.
func recoverImage(dir string, img map[string][]byte) (scan []string, rows []int, qerr error) {
	os.RemoveAll(dir)
	must(os.MkdirAll(dir, 0o755))
	for n, d := range img {
		must(os.WriteFile(filepath.Join(dir, n), d, 0o600))
	}
	st := bs.NewFileSystemDataStore(dir)
	cfg := bs.DefaultBloomSearchEngineConfig()
	eng, err := bs.NewBloomSearchEngine(cfg, st, st)
	must(err)
	ctx := context.Background()
	scan, err = scanPointers(ctx, st)
	must(err)
	res, err := eng.Query(ctx, bs.NewQuery().Build())
	must(err)
	for res.Next() {
		if id, ok := res.Row()["id"].(float64); ok {
			rows = append(rows, int(id))
		} else {
			rows = append(rows, -1)
		}
	}
	qerr = res.Err()
	res.Close()
	sort.Ints(rows)
	return scan, rows, qerr
}

func coqImage(img map[string][]byte, in *interner) string {
	keys := sortedKeys(img)
	items := make([]string, len(keys))
	for i, n := range keys {
		base, ext, _ := splitName(n)
		items[i] = fmt.Sprintf("((%s, %s), %s)", coqS(base), ext, in.ref(img[n]))
	}
	return coqList(items)
}

// ---------------------------------------------------------------- driver

func runC15(c *Ctx) {
	// a store that no longer behaves like the model can make the harness itself trip (an unexpected
	// error, an index out of range): report that as a broken correspondence, not as a crash
	defer func() {
		if r := recover(); r != nil {
			c.mismatch("harness-panic", fmt.Sprintf("the harness could not drive the store as the model expects: %v", r), nil)
		}
	}()
	c.rep.Rule = "histories of 3-7 engine operations on FileSystemDataStore as both stores: ingest+Flush, flushes failed by a real os error " +
		"(EMFILE at reservation/temp create/the open of the directory fsync, EIO from fsync(2) on the directory through a per-thread seccomp filter while everything else succeeds, handle closed before Sync, rename in an immutable directory, a short write), merges; " +
		"crash points = every os-call boundary of the history (all in thorough, every one for process crashes and sampled for power loss in quick, always right after an acknowledgement); " +
		"what is durable follows what the os calls did (an fsync that was made to fail made nothing durable, whatever the store reported); " +
		"power-loss outcomes = nothing-unsynced, everything-with-cut-data, and sampled (thorough: all up to 64 combinations) choices of pending entry changes x none/all/cut of unsynced bytes. " +
		"Per probe: image within the model's crash relation, model recovery = real scan, fresh engine query: Err nil, acknowledged rows present, no invented row, no duplicate. " +
		"Non-trivial: a probe whose image differs from the final directory of the history. Distinct by (history, k, image)."
	scratch := filepath.Join(c.Out, "fs15")
	clearImmutableTree(scratch)
	os.RemoveAll(scratch)
	must(os.MkdirAll(scratch, 0o755))
	fixed := storeHasFix(scratch)
	sh := c.newShard("f15", runnerFC, "caseC", "mismatchesC", "violationsC")
	sh.limit = 1
	nHist := c.pick(18, 150)
	for i := 0; i < nHist; i++ {
		c15History(c, sh, filepath.Join(scratch, fmt.Sprintf("h%d", i)), i, fixed)
	}
	// the trivial crash point (no crash, just a reopen) after merges that form several groups, one of which
	// fails: judged on the Go side only (the Coq crash model covers single-group merges)
	nMG := c.pick(16, 80)
	for i := 0; i < nMG; i++ {
		c15MultiGroupMergeFault(c, filepath.Join(scratch, fmt.Sprintf("mg%d", i)), i, "C15", "c15-crash")
	}
	if !immutableProbe.ok {
		c.rep.Notes = append(c.rep.Notes, "immutable-directory faults (rename failures) not available on this platform")
	}
	if !fsyncFailProbe.ok {
		c.rep.Notes = append(c.rep.Notes, "a failing fsync(2) (seccomp filter) cannot be injected on this platform; the directory fsync was only failed through the open of the directory")
	}
}

func c15History(c *Ctx, sh *shard, dir string, hi int, fixed bool) {
	ctx := context.Background()
	names := []string{"f0", "f1", "f2", "f3", "f4", "f5", "f6", "f7", "f8", "f9"}
	c.rng.Shuffle(len(names), func(i, j int) { names[i], names[j] = names[j], names[i] })
	r := newFsRig(dir, names)
	h := &c15Hist{c: c, r: r, dir: dir, in: newInterner(), sim: newSimFS(), writerRows: map[int][]int{}, baseWriter: map[string]int{},
		ingested: map[int]bool{}, closeFault: -1, lastCreated: -1}
	defer func() {
		r.close()
		os.RemoveAll(dir)
		os.RemoveAll(dir + ".img")
	}()
	store := &c15Store{h: h}
	cfg := bs.DefaultBloomSearchEngineConfig()
	cfg.MaxBufferedTime = time.Hour
	cfg.BloomFalsePositiveRate = 0.3
	cfg.RowDataCompression = bs.CompressionNone
	eng, err := bs.NewBloomSearchEngine(cfg, store, store)
	must(err)
	eng.Start()
	nextRow := 0 // small ids: they are nat literals on the Coq side
	var opsDesc []string
	wantMerge := c.chance(0.5)
	nOps := 3 + c.intn(5)
	flushesOK := 0
	for op := 0; op < nOps; op++ {
		doMerge := wantMerge && flushesOK >= 2 && c.chance(0.5)
		if doMerge {
			// rows of the output = rows of every file the merge's scan can see
			var src []int
			for _, e := range snapshotDir(dir) {
				if e.Ext == "Dat" && validBloom(e.Data) {
					src = append(src, h.writerRows[h.baseWriter[e.Base]]...)
				}
			}
			sort.Ints(src)
			h.pendingRows = src
			if c.chance(0.25) {
				h.closeFault = []int{0, 3}[c.intn(2)]
				if r.fsyncOK && c.chance(0.4) {
					h.closeFault = 4
				}
			}
			start := len(h.log)
			_, err := eng.Merge(ctx)
			h.closeFault = -1 // a merge that wrote nothing must not leave its fault to the next flush
			h.hasMerge = true
			m := c15Merge{publishPos: -1, donePos: len(h.log), srcRows: src}
			for k := start; k < len(h.labels); k++ {
				if h.labels[k].K == "Rename" && h.labels[k].Ok && m.publishPos < 0 {
					m.publishPos = k + 1 // the output is visible to scans from its rename on
				}
			}
			if m.publishPos >= 0 {
				h.merges = append(h.merges, m)
			}
			opsDesc = append(opsDesc, fmt.Sprintf("merge(err=%v)", err != nil))
			c.dist("c15_op", fmt.Sprintf("merge err=%v", err != nil))
			continue
		}
		n := 1 + c.intn(3)
		batch := make([]map[string]any, n)
		var ids []int
		for j := range batch {
			batch[j] = map[string]any{"id": nextRow, "s": fmt.Sprintf("v%d", c.intn(100))}
			ids = append(ids, nextRow)
			h.ingested[nextRow] = true
			nextRow++
		}
		h.pendingRows = ids
		fault := "none"
		if c.chance(0.3) {
			kinds := []string{"reserve", "tmpcreate", "write", "sync", "dirsync"}
			if r.immOK {
				kinds = append(kinds, "rename")
			}
			if r.fsyncOK {
				kinds = append(kinds, "dirfsync", "dirfsync")
			}
			fault = kinds[c.intn(len(kinds))]
			switch fault {
			case "reserve":
				h.createFault = &fsFault{kind: "fs.reserve"}
			case "tmpcreate":
				h.createFault = &fsFault{kind: "fs.tmpcreate"}
			case "write":
				h.writeFault = true
			case "sync":
				h.closeFault = 0
			case "rename":
				h.closeFault = 2
			case "dirsync":
				h.closeFault = 3
			case "dirfsync":
				h.closeFault = 4
			}
		}
		done := make(chan error, 1)
		must(eng.IngestRows(ctx, batch, done))
		_ = eng.Flush(ctx) // reports the flush error as well; the batch's own channel is what is checked
		ferr := <-done
		if ferr == nil {
			h.log = append(h.log, fmt.Sprintf("EAck %d", h.lastCreated))
			h.labels = append(h.labels, fsLabel{K: "Ack", A: h.lastCreated})
			h.ackedAt = append(h.ackedAt, ackRec{pos: len(h.log), rows: ids})
			flushesOK++
		}
		h.createFault, h.closeFault, h.writeFault = nil, -1, false
		opsDesc = append(opsDesc, fmt.Sprintf("flush(%d rows, fault=%s, err=%v)", n, fault, ferr != nil))
		c.dist("c15_op", fmt.Sprintf("flush fault=%s err=%v", fault, ferr != nil))
		if (fault != "none") != (ferr != nil) {
			c.mismatch("c15-fault", fmt.Sprintf("history %d: injected fault %s, flush error %v", hi, fault, ferr), opsDesc)
		}
	}
	stopCtx, cancel := context.WithTimeout(ctx, 10*time.Second)
	must(eng.Stop(stopCtx))
	cancel()
	if h.boundaryBad != "" {
		c.mismatch("c15-replica", "crash replica and real directory disagree: "+h.boundaryBad, opsDesc)
	}
	for _, m := range r.misreported {
		c.mismatch("c15-os-result", fmt.Sprintf("history %d: %s", hi, m), opsDesc)
	}
	c.rep.TracesValidated++

	// ---- probes: replay the labels on a second replica, crash at every boundary
	finalDir := map[string][]byte{}
	for _, e := range snapshotDir(dir) {
		finalDir[e.Base+"."+strings.ToLower(e.Ext)] = e.Data
	}
	rep := newSimFS()
	var probes []string
	var probeDesc []map[string]any
	goViol := ""
	goSig := ""
	d3 := false
	imgDir := dir + ".img"
	probe := func(k int, kind string, img map[string][]byte, toCoq bool) {
		scan, rows, qerr := recoverImage(imgDir, img)
		if toCoq {
			var recItems []string
			for _, b := range scan {
				recItems = append(recItems, coqPair(coqS(b), h.in.ref(img[b+".dat"])))
			}
			ck := "KProc"
			if kind == "power" {
				ck = "KPower"
			}
			probes = append(probes, fmt.Sprintf("mkProbe %d %s %s %s", k, ck, coqImage(img, h.in), coqList(recItems)))
		}
		nontrivial := !sameImage(img, finalDir)
		key := fmt.Sprintf("h%d k%d %s %v", hi, k, kind, sortedKeys(img))
		c.count([]string{"C15"}, key+fmt.Sprint(imgSizes(img)), nontrivial, map[string]any{"history": opsDesc, "k": k, "kind": kind, "files": imgSizes(img), "rows": rows})
		c.dist("c15_probe", kind)
		// the property on the Go side
		acked := map[int]bool{}
		for _, a := range h.ackedAt {
			if a.pos <= k {
				for _, id := range a.rows {
					acked[id] = true
				}
			}
		}
		got := map[int]int{}
		for _, id := range rows {
			got[id]++
		}
		var problems []string
		if qerr != nil {
			problems = append(problems, "query error on the recovered directory: "+qerr.Error())
		}
		for id := range acked {
			if got[id] == 0 {
				problems = append(problems, fmt.Sprintf("acknowledged row %d missing", id))
			}
		}
		var dups []int
		for id, n := range got {
			if !h.ingested[id] {
				problems = append(problems, fmt.Sprintf("row %d was never ingested", id))
			}
			if n > 1 {
				dups = append(dups, id)
			}
		}
		if len(dups) > 0 {
			// known: duplicates that all belong to the sources of a merge whose output was published
			// (its Close completed) at or before this crash point
			srcRows := map[int]bool{}
			for _, m := range h.merges {
				if m.publishPos <= k {
					for _, id := range m.srcRows {
						srcRows[id] = true
					}
				}
			}
			all := true
			for _, id := range dups {
				all = all && srcRows[id]
			}
			sort.Ints(dups)
			if all {
				d3 = true
				c.dist("c15_known", "merge-window duplicate ("+kind+")")
				if len(problems) == 0 && goViol == "" {
					goViol = fmt.Sprintf("history %d, crash after %d os calls (%s): rows %v returned twice; they belong to the sources of a merge whose output was already published", hi, k, kind, dups)
					goSig = sigD3
				}
			} else {
				problems = append(problems, fmt.Sprintf("rows %v returned more than once", dups))
			}
		}
		if len(problems) > 0 && (goViol == "" || goSig == sigD3) {
			goViol = fmt.Sprintf("history %d, crash after %d os calls (%s): %s", hi, k, kind, strings.Join(problems, "; "))
			goSig = "c15-crash"
		}
		probeDesc = append(probeDesc, map[string]any{"k": k, "kind": kind, "files": imgSizes(img), "scan": scan, "rows": rows})
	}
	procImage := func() map[string][]byte {
		img := map[string][]byte{}
		for n, i := range rep.dir {
			img[n] = rep.inodes[i].data
		}
		return img
	}
	total := len(h.labels)
	for k := 0; k <= total; k++ {
		if k > 0 {
			l := h.labels[k-1]
			if l.K != "Ack" {
				if l.K == "TmpCreate" && l.R == "COk" {
					rep.apply(l)
					rep.wino[l.A] = len(rep.inodes) - 1
				} else {
					rep.apply(l)
				}
			}
		}
		probe(k, "proc", procImage(), true)
		afterAck := k > 0 && h.labels[k-1].K == "Ack"
		if c.thorough() || c.chance(0.35) || k == total || afterAck {
			// every outcome is judged here; the model side evaluates all of them in quick and a
			// sample per boundary in thorough (the exhaustive enumeration is large)
			for j, img := range powerImages(c, rep, c.thorough()) {
				probe(k, "power", img, !c.thorough() || j < 2 || c.chance(0.05))
			}
		}
	}
	rowItems := []string{}
	for _, a := range sortedIntKeys(h.writerRows) {
		ids := make([]string, len(h.writerRows[a]))
		for i, id := range h.writerRows[a] {
			ids[i] = fmt.Sprint(id)
		}
		rowItems = append(rowItems, coqPair(fmt.Sprint(a), coqList(ids)))
	}
	term := fmt.Sprintf("CCrash %s (N.to_nat %d%%N) %s %s %s (fun t => %s) (fun t => %s)", coqBool(fixed), bs.VerifMaxCreateFileAttempts,
		h.in.table(validBloom), coqBool(h.hasMerge), coqList(rowItems), coqList(h.log), coqList(probes))
	desc := map[string]any{"kind": "history", "history": hi, "ops": opsDesc, "labels": len(h.labels), "probes": len(probes), "merges": len(h.merges)}
	if d3 {
		desc["sig"] = sigD3
	}
	if len(probeDesc) > 40 {
		probeDesc = probeDesc[:40]
	}
	desc["first_probes"] = probeDesc
	sh.add(c, "("+term+")%nat", desc)
	c.dist("c15_history", fmt.Sprintf("merge=%v", h.hasMerge))
	if goViol != "" {
		c.violation(goSig, goViol, desc)
	}
}

func sameImage(a, b map[string][]byte) bool {
	if len(a) != len(b) {
		return false
	}
	for k, v := range a {
		if w, ok := b[k]; !ok || !bytes.Equal(v, w) {
			return false
		}
	}
	return true
}

func imgSizes(img map[string][]byte) []string {
	var out []string
	for _, n := range sortedKeys(img) {
		out = append(out, fmt.Sprintf("%s:%d", n, len(img[n])))
	}
	return out
}

func sortedIntKeys[V any](m map[int]V) []int {
	keys := make([]int, 0, len(m))
	for k := range m {
		keys = append(keys, k)
	}
	sort.Ints(keys)
	return keys
}

// ---------------------------------------------------------------- merges of several groups, one failing

// c15FaultStore passes everything to the real FileSystemDataStore; once armed, the failAt-th Write
// (counted over all writers from the arming on) fails after writing half of its bytes.
type c15FaultStore struct {
	bs.DataStore
	armed  bool
	failAt int
	writes int
	fired  bool
	cancel context.CancelFunc // when set, the failAt-th Write cancels the merge's context instead of failing
}

type c15FaultWriter struct {
	io.WriteCloser
	s *c15FaultStore
}

type c15FaultWriterAbort struct{ c15FaultWriter }

func (w c15FaultWriter) Write(p []byte) (int, error) {
	s := w.s
	if s.armed {
		n := s.writes
		s.writes++
		if n == s.failAt {
			s.fired = true
			if s.cancel != nil {
				s.cancel() // the caller gives up on the merge; the store itself ignores the context
				return w.WriteCloser.Write(p)
			}
			k, _ := w.WriteCloser.Write(p[:len(p)/2])
			return k, errC15Write
		}
	}
	return w.WriteCloser.Write(p)
}

func (w c15FaultWriterAbort) Abort() error {
	return w.WriteCloser.(interface{ Abort() error }).Abort()
}

func (s *c15FaultStore) CreateFile(ctx context.Context) (io.WriteCloser, []byte, error) {
	w, p, err := s.DataStore.CreateFile(ctx)
	if err != nil {
		return nil, nil, err
	}
	fw := c15FaultWriter{WriteCloser: w, s: s}
	if _, ok := w.(interface{ Abort() error }); ok {
		return c15FaultWriterAbort{fw}, p, nil
	}
	return fw, p, nil
}

// Files of 2-3 partitions, 2-3 single-partition files each, so that one Merge call forms one group per
// partition; a write fault somewhere in the merge (or none). Whatever Merge returns, a fresh store and
// engine over the directory must return every acknowledged row exactly once with a nil error.
func c15MultiGroupMergeFault(c *Ctx, dir string, idx int, prop, sig string) {
	defer func() {
		if r := recover(); r != nil {
			c.mismatch("harness-panic", fmt.Sprintf("multi-group merge scenario %d: %v", idx, r), nil)
		}
		os.RemoveAll(dir)
	}()
	ctx := context.Background()
	os.RemoveAll(dir)
	must(os.MkdirAll(dir, 0o755))
	fs := bs.NewFileSystemDataStore(dir)
	store := &c15FaultStore{DataStore: fs}
	cfg := bs.DefaultBloomSearchEngineConfig()
	cfg.MaxBufferedTime = time.Hour
	cfg.RowDataCompression = []bs.CompressionType{bs.CompressionNone, bs.CompressionSnappy}[c.intn(2)]
	cfg.PartitionFunc = func(row map[string]any) string { p, _ := row["p"].(string); return p }
	eng, err := bs.NewBloomSearchEngine(cfg, fs, store)
	must(err)
	eng.Start()
	nParts := 2 + c.intn(2)
	acked := map[int]bool{}
	next := 0
	for round := 0; round < 2+c.intn(2); round++ {
		for p := 0; p < nParts; p++ {
			n := 1 + c.intn(3)
			batch := make([]map[string]any, n)
			var ids []int
			for j := range batch {
				batch[j] = map[string]any{"id": next, "p": fmt.Sprintf("part%d", p), "s": fmt.Sprintf("v%d", c.intn(50))}
				ids = append(ids, next)
				next++
			}
			done := make(chan error, 1)
			must(eng.IngestRows(ctx, batch, done))
			must(eng.Flush(ctx))
			must(<-done)
			for _, id := range ids {
				acked[id] = true
			}
		}
	}
	store.armed = c.chance(0.85)
	store.failAt = c.intn(10 * nParts)
	mctx, mcancel := context.WithCancel(ctx)
	mode := "write-fault"
	if idx%2 == 1 {
		mode = "caller-cancels"
		store.cancel = mcancel
	}
	_, mergeErr := eng.Merge(mctx)
	mcancel()
	store.armed = false
	stopCtx, cancel := context.WithTimeout(ctx, 10*time.Second)
	must(eng.Stop(stopCtx))
	cancel()
	c.dist("c15_multigroup_merge", fmt.Sprintf("groups=%d %s fired=%v merge_err=%v", nParts, mode, store.fired, mergeErr != nil))

	st2 := bs.NewFileSystemDataStore(dir)
	eng2, err := bs.NewBloomSearchEngine(bs.DefaultBloomSearchEngineConfig(), st2, st2)
	must(err)
	res, err := eng2.Query(ctx, bs.NewQuery().Build())
	must(err)
	got := map[int]int{}
	for res.Next() {
		if id, ok := res.Row()["id"].(float64); ok {
			got[int(id)]++
		} else {
			got[-1]++
		}
	}
	qerr := res.Err()
	res.Close()
	var problems []string
	if qerr != nil {
		problems = append(problems, "query error on the reopened directory: "+qerr.Error())
	}
	var missing, dup, invented []int
	for id := range acked {
		if got[id] == 0 {
			missing = append(missing, id)
		}
	}
	for id, n := range got {
		if !acked[id] {
			invented = append(invented, id)
		}
		if n > 1 {
			dup = append(dup, id)
		}
	}
	sort.Ints(missing)
	sort.Ints(dup)
	sort.Ints(invented)
	if len(missing) > 0 {
		problems = append(problems, fmt.Sprintf("acknowledged rows %v missing", missing))
	}
	if len(dup) > 0 {
		problems = append(problems, fmt.Sprintf("rows %v returned more than once", dup))
	}
	if len(invented) > 0 {
		problems = append(problems, fmt.Sprintf("rows %v were never acknowledged", invented))
	}
	desc := map[string]any{"kind": "multigroup-merge", "mode": mode, "partitions": nParts, "rows": next, "fault_armed_at_write": store.failAt, "fault_fired": store.fired, "merge_err": fmt.Sprint(mergeErr)}
	c.count([]string{prop}, fmt.Sprintf("mg %d %d %d %v %v", idx, nParts, next, store.fired, mergeErr != nil), store.fired, desc)
	if len(problems) > 0 {
		c.violation(sig, fmt.Sprintf("multi-group merge %d (%s at write %d, fired=%v, Merge error=%v), then a reopen: %s", idx, mode, store.failAt, store.fired, mergeErr != nil, strings.Join(problems, "; ")), desc)
	}
}
