package main

import (
	"bytes"
	"runtime"
	"sort"
	"strconv"
)

func sortStrings(s []string) { sort.Strings(s) }

// curGoroutineID parses the goroutine id out of the stack header; used only to
// tell callers apart in store logs.
func curGoroutineID() int64 {
	var buf [64]byte
	n := runtime.Stack(buf[:], false)
	b := bytes.TrimPrefix(buf[:n], []byte("goroutine "))
	i := bytes.IndexByte(b, ' ')
	if i < 0 {
		return -1
	}
	id, _ := strconv.ParseInt(string(b[:i]), 10, 64)
	return id
}

func sortedKeys[V any](m map[string]V) []string {
	keys := make([]string, 0, len(m))
	for k := range m {
		keys = append(keys, k)
	}
	sortStrings(keys)
	return keys
}
