package main

// Family P: the merged event log of one run (hook events, store calls, harness
// observations in one total order), its translation into the labels of
// coq/Model/Pipeline.v, and the case emitter.

import (
	"fmt"
	"strings"
	"time"
)

type pEvent struct {
	Kind string
	S    string
	A, B int64
	Gid  int64
	T    time.Duration
}

// pItem is one translated log entry: a Coq term of type ev plus what normalisation needs.
type pItem struct {
	term  string
	role  string // "actor", "worker", "" (others)
	class string // "isent","itake","fsent","ftake","" ...
	id    int    // request id for isent/itake
}

type pOpInfo struct {
	ID      int
	Kind    string // "force", "batch"
	Valid   bool
	Contrib [][3]int64 // partition, rows, bytes
	Ch      string     // nil buf drain abandon
	Rows    int
}

func (o *pOpInfo) coqKind() string {
	if o.Kind == "force" {
		return "KForce"
	}
	items := make([]string, len(o.Contrib))
	for i, c := range o.Contrib {
		items[i] = fmt.Sprintf("(%d%%nat, (%s, %s))", c[0], coqZ(c[1]), coqZ(c[2]))
	}
	return fmt.Sprintf("(KBatch %s %s)", coqBool(o.Valid), coqList(items))
}

func (o *pOpInfo) coqChan() string {
	switch o.Ch {
	case "nil":
		return "ChNil"
	case "buf":
		return "ChBuf"
	case "drain":
		return "ChDrain"
	}
	return "ChAbandon"
}

func coqRes(ok bool) string {
	if ok {
		return "RNil"
	}
	return "RErr"
}

var pSKind = map[string]string{"CreateFile": "KCreate", "Write": "KWrite", "Close": "KClose", "Abort": "KAbort", "Tombstone": "KTomb", "Update": "KUpdate"}

// translate turns the raw log into items. vid2op maps hook request ids to harness op ids.
func pTranslate(evs []pEvent, ops map[int]*pOpInfo, vid2op map[int64]int) (items []pItem, problems []string) {
	var actorGid, workerGid int64 = -1, -1
	el := func(l string) string { return "EL (" + l + ")" }
	for i, e := range evs {
		k := e.Kind
		role := ""
		if strings.HasPrefix(k, "actor.") || strings.HasPrefix(k, "fq.") {
			actorGid = e.Gid
			role = "actor"
		}
		if strings.HasPrefix(k, "worker.") || strings.HasPrefix(k, "fl.") {
			workerGid = e.Gid
			role = "worker"
		}
		op := func() int {
			o, ok := vid2op[e.A]
			if !ok {
				problems = append(problems, fmt.Sprintf("event %s refers to unknown request id %d", k, e.A))
				return 9999
			}
			return o
		}
		add := func(term, class string, id int) {
			items = append(items, pItem{term: term, role: role, class: class, id: id})
		}
		switch k {
		case "ingest.try", "flush.try":
			o := op()
			info := ops[o]
			if info == nil {
				problems = append(problems, fmt.Sprintf("no op info for %d", o))
				continue
			}
			if k == "ingest.try" && int(e.B) != info.Rows {
				problems = append(problems, fmt.Sprintf("op %d: engine saw %d rows, harness sent %d", o, e.B, info.Rows))
			}
			add(el(fmt.Sprintf("LTry %d%%nat %s %s", o, info.coqKind(), info.coqChan())), "", o)
		case "ingest.refused":
			add(el("LRefuse"), "", 0)
		case "ingest.sent":
			add(el(fmt.Sprintf("LSent %d%%nat", op())), "isent", op())
		case "ingest.ctxerr":
			add(el(fmt.Sprintf("LCtxErr %d%%nat", op())), "", 0)
		case "start":
			add(el("LStart"), "", 0)
		case "start.noop":
			add(el("LStartNoop"), "", 0)
		case "stop.begin":
			add(el("LStopBegin"), "", 0)
		case "stop.flag":
			add(el("LStopFlag"), "", 0)
		case "ctx.cancel":
			add(el("LCtxCancel"), "", 0)
		case "flush.cancel":
			add(el("LFlushCancel"), "", 0)
		case "stop.ret.nil":
			add(el("LStopBr RNil"), "", 0)
		case "stop.ret.deadline":
			add(el("LStopBr RErr"), "", 0)
		case "h.stopctxdone":
			add(el("LStopCtxDone"), "", 0)
		case "h.stopret":
			add(el("LStopReturn "+coqRes(e.A == 1)), "", 0)
		case "actor.ctxdone":
			add(el("LActorCtxDone"), "", 0)
		case "actor.take":
			add(el(fmt.Sprintf("LActorTake %d%%nat", op())), "itake", op())
		case "actor.force":
			add(el("LActorForce"), "", 0)
		case "actor.acknow":
			add(el("LActorAckNow"), "", 0)
		case "actor.reject":
			add(el("LActorReject"), "", 0)
		case "actor.buftotals":
			add(fmt.Sprintf("OBufTotals %s %s", coqZ(e.A), coqZ(e.B)), "", 0)
		case "actor.buffer":
			// flushed iff the actor's next event is actor.bufflush
			fl := false
			for j := i + 1; j < len(evs); j++ {
				if evs[j].Gid == e.Gid {
					fl = evs[j].Kind == "actor.bufflush"
					break
				}
			}
			add(el("LActorBuffer "+coqBool(fl)), "", 0)
		case "actor.bufflush":
		case "actor.tick.flush":
			add(el("LTickFlush"), "", 0)
		case "actor.drainflush":
			add(el("LDrainEnd"), "", 0)
		case "actor.exit":
			add(el("LActorExit"), "", 0)
		case "fq.try":
			add(fmt.Sprintf("OFqTry %d%%nat %d%%nat", e.A, e.B), "", 0)
		case "fq.sent":
			add(el("LFqSent"), "fsent", 0)
		case "fq.abandon":
			add(el("LFqAbandon"), "", 0)
		case "worker.ctxdone":
			add(el("LWorkerCtxDone"), "", 0)
		case "worker.take":
			add(el("LWorkerTake"), "ftake", 0)
		case "worker.ingestdone":
			add(el("LWorkerIngestDone"), "", 0)
		case "worker.exit":
			add(el("LWorkerExit"), "", 0)
		case "fl.abandoned":
			add(el("LFlAbandoned"), "", 0)
		case "fl.ackonly":
			add(el("LFlAckOnly"), "", 0)
		case "fl.begin":
			add(el("LFlBegin"), "", 0)
		case "h.sbegin":
			role = "worker"
			add(fmt.Sprintf("OStoreCtx %s %s", pSKind[e.S], coqBool(e.A == 1)), "", 0)
			add(el("LSBegin "+pSKind[e.S]), "", 0)
		case "h.send":
			role = "worker"
			add(el(fmt.Sprintf("LSEnd %s %s", pSKind[e.S], coqBool(e.A == 1))), "", 0)
		case "send.nil", "send.ok", "send.giveup":
			o := map[string]string{"send.nil": "ANil", "send.ok": "AOk", "send.giveup": "AGiveUp"}[k]
			switch e.Gid {
			case actorGid:
				role = "actor"
				add(el("LAck Actor "+o), "", 0)
			case workerGid:
				role = "worker"
				add(el("LAck Worker "+o), "", 0)
			}
		case "h.call":
			add(fmt.Sprintf("OCall %d%%nat", e.A), "", 0)
		case "h.ret":
			add(fmt.Sprintf("ORet %d%%nat %s", e.A, coqBool(e.B == 1)), "", 0)
		case "h.recv":
			add(fmt.Sprintf("ORecv %d%%nat %s", e.A, coqRes(e.B == 1)), "", 0)
		default:
			// events of other subsystems (query path hooks) are not part of this LTS
		}
	}
	return items, problems
}

// pNormalizeChan repositions the "sent" events of one Go channel. A sender logs "sent"
// after its send completed and the receiver logs "take" after its receive, so the log may
// show take before sent, or a sent that is late relative to a later sender's. The real send
// order is the take order (single consumer, FIFO channel); a send really happened before
// the earliest of its own sent/take log entries and before those of every later send.
// So each Sent is placed just before the earliest such entry (never earlier than the real
// send, never later than where it was logged). If the log then shows cap+1 queued items,
// the consumer had already received the head but not yet logged it: its take is moved up,
// provided the consumer logged nothing in between.
func pNormalizeChan(items []pItem, sentClass, takeClass, consumerRole string, capacity int, byID bool) []pItem {
	type ref struct{ sent, take int }
	key := func(it pItem, n int) int {
		if byID {
			return it.id
		}
		return n
	}
	refs := map[int]*ref{}
	var takeOrder, sentOrder []int
	ns, nt := 0, 0
	for i, it := range items {
		switch it.class {
		case sentClass:
			k := key(it, ns)
			ns++
			if refs[k] == nil {
				refs[k] = &ref{sent: -1, take: -1}
			}
			refs[k].sent = i
			sentOrder = append(sentOrder, k)
		case takeClass:
			k := key(it, nt)
			nt++
			if refs[k] == nil {
				refs[k] = &ref{sent: -1, take: -1}
			}
			refs[k].take = i
			takeOrder = append(takeOrder, k)
		}
	}
	order := append([]int{}, takeOrder...)
	for _, k := range sentOrder {
		if refs[k].take < 0 {
			order = append(order, k)
		}
	}
	// placement index (in the original list) for each Sent
	place := map[int]int{}
	min := len(items)
	for j := len(order) - 1; j >= 0; j-- {
		r := refs[order[j]]
		if r.sent >= 0 && r.sent < min {
			min = r.sent
		}
		if r.take >= 0 && r.take < min {
			min = r.take
		}
		place[order[j]] = min
	}
	before := map[int][]pItem{}
	for _, k := range order {
		r := refs[k]
		if r.sent < 0 {
			continue // taken but the sender never logged: leave it to the replay to complain
		}
		before[place[k]] = append(before[place[k]], items[r.sent])
	}
	var out []pItem
	for i, it := range items {
		out = append(out, before[i]...)
		if it.class == sentClass {
			continue
		}
		out = append(out, it)
	}
	out = append(out, before[len(items)]...)
	// capacity: pull a take forward when the consumer had evidently received already
	occ := 0
	for i := 0; i < len(out); i++ {
		switch out[i].class {
		case takeClass:
			occ--
		case sentClass:
			if occ >= capacity {
				for j := i + 1; j < len(out); j++ {
					if out[j].class == takeClass {
						t := out[j]
						copy(out[i+1:j+1], out[i:j])
						out[i] = t
						occ--
						i++
						break
					}
					if out[j].role == consumerRole {
						break
					}
				}
			}
			occ++
		}
	}
	return out
}

func pTerms(items []pItem) []string {
	out := make([]string, len(items))
	for i, it := range items {
		out[i] = it.term
	}
	return out
}

type pCfgSpec struct {
	ICap, FCap                             int
	MaxRows, MaxBytes, PartRows, PartBytes int
	Timeless, HasAbort                     bool
	FixD5, FixD6, FixD9                    bool
}

func (s pCfgSpec) coq() string {
	return fmt.Sprintf("(mkCfg %d %d %d %d %d %d %s %s %s %s %s)", s.ICap, s.FCap, s.MaxRows, s.MaxBytes, s.PartRows, s.PartBytes,
		coqBool(s.Timeless), coqBool(s.HasAbort), coqBool(s.FixD5), coqBool(s.FixD6), coqBool(s.FixD9))
}

func pCoqNatList(xs []int) string {
	items := make([]string, len(xs))
	for i, x := range xs {
		items[i] = fmt.Sprintf("%d%%nat", x)
	}
	return coqList(items)
}

func pCaseTerm(cfg pCfgSpec, terms []string, onceSame, onceFresh, anyVis, bad []int, exact bool) string {
	return fmt.Sprintf("mkCase %s\n   [%s]\n   %s %s %s %s %s", cfg.coq(), strings.Join(terms, ";\n    "),
		pCoqNatList(onceSame), pCoqNatList(onceFresh), pCoqNatList(anyVis), pCoqNatList(bad), coqBool(exact))
}
