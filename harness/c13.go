package main

// C13: Merge under faults at every store call kind and position (and pairs of
// faults), over MemoryMetaStore and over FileSystemDataStore used as MetaStore,
// against Model/MergeCommit.v; overlapping Merge calls (single flight).

import (
	"context"
	"errors"
	"fmt"
	"os"
	"path/filepath"
	"sort"
	"sync"
	"time"

	bs "github.com/danthegoodman1/bloomsearch"
)

func init() { register("g_commit", []string{"C13"}, runGCommit) }

const (
	sigFsVisibleBeforeUpdate = "fs-metastore-output-visible-before-update"
	sigFsOrphanOutput        = "fs-metastore-orphan-output-after-failed-cleanup"
)

func runGCommit(c *Ctx) {
	c.prop("C13").Rule = "scenarios: a population as in C11 (several writers/partitions/key sets) whose fault-free merge forms 2+ groups (some with 1), limits small enough to matter; " +
		"a dry run on a clone counts the store calls per kind; then one run per fault: the k-th call of each kind (iterator error after k files, CreateFile, OpenFile, Read, Write, Close, " +
		"Update, TombstoneFile; all positions when few, else first/last/sampled), pairs (a body fault plus a failing Abort / cleanup TombstoneFile), writers without Abort; " +
		"stores: MemoryMetaStore + in-memory DataStore, and the real FileSystemDataStore as DataStore and MetaStore behind a fault-injecting wrapper. Every run is one case: the observed " +
		"call trace (runs of Reads on a handle / Writes collapsed) must equal merge_engine's trace under the same fault positions, with the same return class and visible pointers; " +
		"ret_okb/committedb/abortedb evaluated on the observed trace; visible pointers sampled before every store call until the Update. Go side: rows before/after, everything referenced readable. " +
		"Overlap: a Merge blocked inside a store call (iterator, CreateFile, Read, Write, Close, Update, TombstoneFile) while a second Merge is called. Non-trivial: a fault was hit or calls overlapped."
	sh := c.newShard("g13", runnerG, "caseG", "mismatches", "violations13")
	sh.prelude = gPrelude
	sh.limit = 110
	nMem := c.pick(12, 160)
	nFs := c.pick(4, 40)
	for s := 0; s < nMem; s++ {
		gCommitScenario(c, sh, s, false)
	}
	for s := 0; s < nFs; s++ {
		gCommitScenario(c, sh, nMem+s, true)
	}
	for s := 0; s < c.pick(6, 40); s++ {
		gNothingScenario(c, sh, 1000+s)
	}
	for s := 0; s < c.pick(18, 90); s++ {
		gSingleFlight(c, sh, s)
	}
}

// gNothingScenario: stores on which Merge has nothing to do (no file, one file, or limits that
// let nobody join): it must return (stats, nil) after draining the iterator, without any other call.
func gNothingScenario(c *Ctx, sh *shard, scen int) {
	fsKind := c.chance(0.3)
	st := gNewStores(c, fsKind, fmt.Sprintf("n%d", scen))
	defer st.cleanup()
	pop := gNewPop(c)
	lim := gLimits{rows: 1000, bytes: 1 << 30, fileSize: 1 << 40, files: 10}
	switch c.intn(4) {
	case 0: // empty store
	case 1:
		pop.writeFiles(c, st.meta, st.data, c.gGenWriterCfg(), 1, 4, 0)
	case 2:
		for w := 0; w < 3; w++ {
			pop.writeFiles(c, st.meta, st.data, c.gGenWriterCfg(), 1, 4, 0)
		}
		lim.fileSize = 1
	default:
		for w := 0; w < 3; w++ {
			pop.writeFiles(c, st.meta, st.data, c.gGenWriterCfg(), 1, 4, 0)
		}
		lim.rows = 1 // every block already holds a row: no pair fits
	}
	cfg := lim.engineConfig(c)
	run := gRunMerge(st, cfg, newGPtrTable(), nil, true, 1)
	if run.stats == nil || run.err != nil {
		c.violation("c13-nothing-to-merge-error", fmt.Sprintf("Merge with nothing to merge returned stats=%v err=%v", run.stats != nil, run.err), nil)
	}
	for _, cl := range run.calls {
		if cl.Kind != "Iter" {
			c.violation("c13-nothing-to-merge-store-call", "Merge with nothing to merge made a store call: "+cl.Kind, nil)
		}
	}
	gCheckRun(c, sh, scen, 0, fsKind, cfg, pop, run, nil)
}

// ---------------------------------------------------------------- stores of one run

type gStores struct {
	fsKind bool
	dir    string
	meta   bs.MetaStore // inner MetaStore
	data   bs.DataStore // inner DataStore
	mem    *memDataStore
	open   gOpener
}

func (st *gStores) cleanup() {
	if st.dir != "" {
		os.RemoveAll(st.dir)
	}
}

func gNewStores(c *Ctx, fsKind bool, name string) *gStores {
	if fsKind {
		dir := filepath.Join(c.Out, "fs", name)
		os.RemoveAll(dir)
		must(os.MkdirAll(dir, 0o755))
		fs := bs.NewFileSystemDataStore(dir)
		return &gStores{fsKind: true, dir: dir, meta: fs, data: fs, open: gFsOpener(fs)}
	}
	mem := newMemDataStore()
	return &gStores{meta: bs.NewMemoryMetaStore(), data: mem, mem: mem, open: gMemOpener(mem)}
}

// clone copies the published content into fresh stores.
func (st *gStores) clone(c *Ctx, name string) *gStores {
	n := gNewStores(c, st.fsKind, name)
	ctx := context.Background()
	if st.fsKind {
		entries, err := os.ReadDir(st.dir)
		must(err)
		for _, e := range entries {
			data, err := os.ReadFile(filepath.Join(st.dir, e.Name()))
			must(err)
			must(os.WriteFile(filepath.Join(n.dir, e.Name()), data, 0o600))
		}
		return n
	}
	st.mem.mu.Lock()
	for k, v := range st.mem.files {
		n.mem.files[k] = append([]byte(nil), v...)
	}
	n.mem.next = st.mem.next
	st.mem.mu.Unlock()
	var writes []bs.WriteOperation
	for mf, err := range st.meta.GetMaybeFilesForQuery(ctx, nil) {
		must(err)
		m := mf.Metadata
		writes = append(writes, bs.WriteOperation{FileMetadata: &m, FilePointerBytes: mf.PointerBytes})
	}
	must(n.meta.Update(ctx, writes, nil))
	return n
}

// ---------------------------------------------------------------- one observed run

type gFaultSpec struct {
	Kind string
	Nth  int
}

type gRun struct {
	faults    []gFaultSpec
	withAbort bool
	stats     *bs.MergeStats
	err       error
	calls     []gCall
	yielded   []string
	before    *gSnap
	after     *gSnap
	afterErr  error
	midDiff   *gVisDiff // first pre-commit snapshot that differs from before
	midSame   int       // pre-commit snapshots equal to before
}

type gVisDiff struct {
	where string
	seen  []string
}

func gVisible(meta bs.MetaStore) []string {
	var out []string
	for mf, err := range meta.GetMaybeFilesForQuery(context.Background(), nil) {
		if err != nil {
			return append(out, "error:"+err.Error())
		}
		out = append(out, string(mf.PointerBytes))
	}
	sort.Strings(out)
	return out
}

func gSameStrings(a, b []string) bool {
	if len(a) != len(b) {
		return false
	}
	for i := range a {
		if a[i] != b[i] {
			return false
		}
	}
	return true
}

// gRunMerge runs one Merge on the stores under the given faults and records everything.
func gRunMerge(st *gStores, cfg bs.BloomSearchEngineConfig, pt *gPtrTable, faults []gFaultSpec, withAbort bool, firstID int) *gRun {
	run := &gRun{faults: faults, withAbort: withAbort}
	var err error
	run.before, err = gSnapshot(st.meta, st.open, pt, firstID)
	must(err)
	beforeVis := gVisible(st.meta)
	fs := newGFaultStore(st.data)
	fs.withAbort = withAbort
	lm := newGLogMeta(st.meta)
	lm.logCall = fs.metaLog
	committed := false
	sample := func(kind string) {
		if committed {
			return
		}
		seen := gVisible(st.meta)
		if gSameStrings(seen, beforeVis) {
			run.midSame++
		} else if run.midDiff == nil {
			run.midDiff = &gVisDiff{where: "before " + kind, seen: seen}
		}
	}
	fs.onCall = func(kind, _ string) { sample(kind) }
	lm.onCall = func(kind string) { sample(kind) }
	for _, f := range faults {
		f := f
		switch f.Kind {
		case "Iter":
			lm.iterFailAt = f.Nth
		case "Update":
			lm.updateFail = func(nth int) error {
				if nth == f.Nth {
					return errInjected
				}
				return nil
			}
		}
	}
	fs.fault = func(kind string, nth int, _ string) error {
		for _, f := range faults {
			if f.Kind == kind && f.Nth == nth {
				return errInjected
			}
		}
		return nil
	}
	// a successful Update ends the "not yet committed" window
	innerLog := lm.logCall
	lm.logCall = func(kind string, err error, u *gUpdateCall) {
		if kind == "Update" && err == nil {
			committed = true
		}
		innerLog(kind, err, u)
	}
	eng, err := bs.NewBloomSearchEngine(cfg, lm, fs)
	must(err)
	run.stats, run.err = eng.Merge(context.Background())
	fs.onCall, lm.onCall = nil, nil
	run.calls = fs.snapshotCalls()
	if len(lm.yields) > 0 {
		run.yielded = lm.yields[0]
	}
	run.after, run.afterErr = gSnapshot(st.meta, st.open, pt, firstID+len(run.before.blocks)+1)
	return run
}

func (r *gRun) retClass() (string, bool) {
	switch {
	case r.stats != nil && r.err == nil:
		return "RetStats", true
	case r.stats != nil && errors.Is(r.err, bs.ErrPostCommitCleanup):
		return "RetStatsCleanup", true
	case r.stats == nil && errors.Is(r.err, bs.ErrMergeInProgress):
		return "RetInProgress", true
	case r.stats == nil && r.err != nil && !errors.Is(r.err, bs.ErrPostCommitCleanup):
		return "RetErr", true
	}
	return "RetErr", false
}

// ---------------------------------------------------------------- trace projection

type gEv struct {
	call string // Coq term of the call
	ok   bool
}

// gProject turns the call log of one Merge into the model's events: runs of Reads on one
// handle and of Writes on one writer are one event each (failed if any failed).
func gProject(calls []gCall, pt *gPtrTable, placeholder func(i int) int64) (evs []gEv, outs []int64) {
	lastKind, lastKey := "", ""
	nCreate := 0
	for _, cl := range calls {
		switch cl.Kind {
		case "Read":
			key := fmt.Sprintf("%s#%d", cl.Pointer, cl.Handle)
			if lastKind == "Read" && lastKey == key {
				evs[len(evs)-1].ok = evs[len(evs)-1].ok && !cl.Failed
				continue
			}
			evs = append(evs, gEv{fmt.Sprintf("(KRead %s)", coqZ(pt.z(cl.Pointer))), !cl.Failed})
			lastKind, lastKey = "Read", key
			continue
		case "Write":
			if lastKind == "Write" && lastKey == cl.Pointer {
				evs[len(evs)-1].ok = evs[len(evs)-1].ok && !cl.Failed
				continue
			}
			evs = append(evs, gEv{fmt.Sprintf("(KWrite %s)", coqZ(pt.z(cl.Pointer))), !cl.Failed})
			lastKind, lastKey = "Write", cl.Pointer
			continue
		case "Iter":
			evs = append(evs, gEv{"KIter", !cl.Failed})
		case "CreateFile":
			if cl.Failed {
				evs = append(evs, gEv{fmt.Sprintf("(KCreate %s)", coqZ(placeholder(nCreate))), false})
			} else {
				z := pt.z(cl.Pointer)
				outs = append(outs, z)
				evs = append(evs, gEv{fmt.Sprintf("(KCreate %s)", coqZ(z)), true})
			}
			nCreate++
		case "OpenFile":
			evs = append(evs, gEv{fmt.Sprintf("(KOpen %s)", coqZ(pt.z(cl.Pointer))), !cl.Failed})
		case "Close":
			evs = append(evs, gEv{fmt.Sprintf("(KClose %s)", coqZ(pt.z(cl.Pointer))), !cl.Failed})
		case "Abort":
			evs = append(evs, gEv{fmt.Sprintf("(KAbort %s)", coqZ(pt.z(cl.Pointer))), !cl.Failed})
		case "Tombstone":
			evs = append(evs, gEv{fmt.Sprintf("(KTomb %s)", coqZ(pt.z(cl.Pointer))), !cl.Failed})
		case "Update":
			ws := make([]int64, len(cl.Update.Writes))
			for i, w := range cl.Update.Writes {
				ws[i] = pt.z(w)
			}
			ds := make([]int64, len(cl.Update.Deletes))
			for i, d := range cl.Update.Deletes {
				ds[i] = pt.z(d)
			}
			evs = append(evs, gEv{fmt.Sprintf("(KUpdate %s %s)", gCoqZs(ws), gCoqZs(ds)), !cl.Failed})
		}
		lastKind, lastKey = cl.Kind, ""
	}
	return evs, outs
}

// gPartitionOrders reconstructs, per merge group, the order in which the partitions were
// visited (Go map order): from the blocks the reads touched; a partition whose first call
// (an OpenFile) failed is recognised by the file it opens; unvisited partitions follow.
func gPartitionOrders(calls []gCall, before *gSnap, groups [][]string) [][]string {
	var orders [][]string
	gi := -1
	type cur struct {
		order []string
		seen  map[string]bool
	}
	var cs *cur
	blockAt := func(ptr string, off int64) *gBlock {
		f := before.byPtr[ptr]
		if f == nil {
			return nil
		}
		for _, b := range f.blocks {
			if int64(b.meta.RowDataOffset) == off || (b.meta.BloomFilterSize > 0 && int64(b.meta.BloomFilterOffset) == off) {
				return b
			}
		}
		return nil
	}
	groupBlocks := func(i int) []*gBlock {
		var bl []*gBlock
		if i < len(groups) {
			for _, p := range groups[i] {
				if f := before.byBase[filepath.Base(p)]; f != nil {
					bl = append(bl, f.blocks...)
				}
			}
		}
		return bl
	}
	finish := func() {
		if cs == nil {
			return
		}
		for _, b := range groupBlocks(gi) {
			if !cs.seen[b.meta.PartitionID] {
				cs.seen[b.meta.PartitionID] = true
				cs.order = append(cs.order, b.meta.PartitionID)
			}
		}
		orders = append(orders, cs.order)
		cs = nil
	}
	identified := map[int]bool{} // handles whose block is known
	pendingOpen := ""            // pointer of the last OpenFile not yet followed by a Read
	flushPending := func() {
		// an OpenFile never followed by a Read: the partition being entered, unless already known
		if pendingOpen == "" || cs == nil {
			pendingOpen = ""
			return
		}
		first := map[string]string{} // partition -> file of its first block in group order
		for _, b := range groupBlocks(gi) {
			if _, ok := first[b.meta.PartitionID]; !ok {
				first[b.meta.PartitionID] = b.file.ptr
			}
		}
		// if the open belongs to the partition currently in progress nothing is needed; a new
		// partition starts with the file of its first block
		for _, b := range groupBlocks(gi) {
			p := b.meta.PartitionID
			if !cs.seen[p] && filepath.Base(first[p]) == filepath.Base(pendingOpen) {
				cs.seen[p] = true
				cs.order = append(cs.order, p)
				break
			}
		}
		pendingOpen = ""
	}
	for _, cl := range calls {
		switch cl.Kind {
		case "CreateFile":
			flushPending()
			finish()
			gi++
			cs = &cur{seen: map[string]bool{}}
		case "OpenFile":
			if cl.Failed {
				pendingOpen = cl.Pointer
				flushPending()
			} else {
				pendingOpen = cl.Pointer
			}
		case "Read":
			if cs != nil && !identified[cl.Handle] {
				if b := blockAt(cl.Pointer, cl.Off); b != nil {
					identified[cl.Handle] = true
					pendingOpen = ""
					if !cs.seen[b.meta.PartitionID] {
						cs.seen[b.meta.PartitionID] = true
						cs.order = append(cs.order, b.meta.PartitionID)
					}
				}
			}
		}
	}
	flushPending()
	finish()
	return orders
}

// ---------------------------------------------------------------- scenario

func gCommitScenario(c *Ctx, sh *shard, scen int, fsKind bool) {
	pt := newGPtrTable()
	var base *gStores
	var pop *gPop
	var cfg bs.BloomSearchEngineConfig
	var dry *gRun
	var groups [][]string
	wantGroups := 2
	if c.chance(0.25) {
		wantGroups = 1
	}
	for attempt := 0; ; attempt++ {
		base = gNewStores(c, fsKind, fmt.Sprintf("s%d-base", scen))
		pop = gNewPop(c)
		pop.nParts = 1 + c.intn(3)
		nWriters := 2 + c.intn(3)
		for w := 0; w < nWriters; w++ {
			pop.writeFiles(c, base.meta, base.data, c.gGenWriterCfg(), 1+c.intn(3), 1+c.intn(5), 0.1)
		}
		snap, err := gSnapshot(base.meta, base.open, pt, 1)
		must(err)
		lim := c.gChooseLimits(snap)
		lim.files = 4 + c.intn(5)
		if c.chance(0.6) {
			lim.fileSize = 1 << 40
		}
		cfg = lim.engineConfig(c)
		if !snap.sortKeyTie() {
			cl := base.clone(c, fmt.Sprintf("s%d-dry", scen))
			dry = gRunMerge(cl, cfg, pt, nil, true, 1)
			cl.cleanup()
			groups = nil
			for _, cll := range dry.calls {
				if cll.Kind == "Update" && !cll.Failed {
					groups = gGroupsOf(dry, cll.Update)
				}
			}
			if dry.err == nil && len(groups) >= wantGroups {
				break
			}
		}
		base.cleanup()
		if attempt > 200 {
			c.rep.Notes = append(c.rep.Notes, "g_commit: no population with enough merge groups found in 200 attempts")
			return
		}
	}
	defer base.cleanup()
	c.dist("g13_scenario", fmt.Sprintf("fs=%v groups=%d", fsKind, len(groups)))

	// calls per kind in the fault-free run
	counts := map[string]int{}
	for _, cl := range dry.calls {
		counts[cl.Kind]++
	}
	counts["Iter"] = len(dry.yielded) + 1 // error after k files, k = 0..n
	var plans [][]gFaultSpec
	plans = append(plans, nil) // fault free
	for _, kind := range []string{"Iter", "CreateFile", "OpenFile", "Read", "Write", "Close", "Update", "Tombstone"} {
		n := counts[kind]
		pos := map[int]bool{}
		if n <= c.pick(7, 40) {
			for i := 0; i < n; i++ {
				pos[i] = true
			}
		} else {
			pos[0], pos[n-1] = true, true
			for len(pos) < c.pick(7, 40) {
				pos[c.intn(n)] = true
			}
		}
		ks := make([]int, 0, len(pos))
		for p := range pos {
			ks = append(ks, p)
		}
		sort.Ints(ks)
		for _, p := range ks {
			plans = append(plans, []gFaultSpec{{kind, p}})
		}
	}
	// pairs: a body fault in a later group plus a failing Abort / cleanup tombstone(s)
	for i := 0; i < c.pick(6, 30); i++ {
		kind := []string{"OpenFile", "Read", "Write", "Close", "CreateFile", "Update"}[c.intn(6)]
		if counts[kind] == 0 {
			continue
		}
		first := gFaultSpec{kind, counts[kind]/2 + c.intn(counts[kind]-counts[kind]/2)}
		plan := []gFaultSpec{first}
		switch c.intn(4) {
		case 0:
			plan = append(plan, gFaultSpec{"Abort", 0})
		case 1:
			plan = append(plan, gFaultSpec{"Tombstone", 0})
		case 2:
			plan = append(plan, gFaultSpec{"Tombstone", 1})
		default:
			plan = append(plan, gFaultSpec{"Tombstone", 0}, gFaultSpec{"Tombstone", 1}, gFaultSpec{"Abort", 0})
		}
		plans = append(plans, plan)
	}
	// several source tombstones failing after the commit
	if counts["Tombstone"] >= 2 {
		plans = append(plans, []gFaultSpec{{"Tombstone", 0}, {"Tombstone", counts["Tombstone"] - 1}})
	}
	for pi, plan := range plans {
		withAbort := true
		if !fsKind && pi%5 == 4 {
			withAbort = false
		}
		cl := base.clone(c, fmt.Sprintf("s%d-r%d", scen, pi))
		run := gRunMerge(cl, cfg, pt, plan, withAbort, 1)
		gCheckRun(c, sh, scen, pi, fsKind, cfg, pop, run, groups)
		cl.cleanup()
	}
}

// gGroupsOf splits an Update's deletes into the groups of its writes using the rows of the outputs.
func gGroupsOf(run *gRun, u *gUpdateCall) [][]string {
	var groups [][]string
	if run.after == nil {
		return nil
	}
	for _, w := range u.Writes {
		out := run.after.byPtr[w]
		if out == nil {
			return nil
		}
		src := map[string]bool{}
		for _, b := range out.blocks {
			for _, t := range b.tags {
				if sb := run.before.tagBlock[t]; sb != nil {
					src[sb.file.ptr] = true
				}
			}
		}
		var g []string
		for _, d := range u.Deletes {
			if src[d] {
				g = append(g, d)
			}
		}
		groups = append(groups, g)
	}
	return groups
}

func gCheckRun(c *Ctx, sh *shard, scen, pi int, fsKind bool, cfg bs.BloomSearchEngineConfig, pop *gPop, run *gRun, groups [][]string) {
	pt := newGPtrTable() // per-run numbering keeps terms small and independent of other runs
	// give the sources stable numbers first
	for _, f := range run.before.files {
		f.z = pt.z(f.ptr)
	}
	ret, contractOK := run.retClass()
	desc := map[string]any{"kind": "commit", "scenario": scen, "plan": pi, "fs": fsKind, "faults": fmt.Sprint(run.faults), "with_abort": run.withAbort,
		"ret": ret, "err": fmt.Sprint(run.err), "limits": fmt.Sprintf("rows=%d bytes=%d filesize=%d files=%d", cfg.MaxRowGroupRows, cfg.MaxRowGroupBytes, cfg.MaxFileSize, cfg.MaxFilesToMergePerOperation)}
	if !contractOK {
		c.violation("c13-return-shape", fmt.Sprintf("Merge returned stats=%v err=%v: not one of (stats,nil) (stats,ErrPostCommitCleanup) (nil,err)", run.stats != nil, run.err), desc)
	}
	evs, outs := gProject(run.calls, pt, func(i int) int64 { return 1000000 + int64(i) })
	var faultIdx []int
	hit := false
	for i, e := range evs {
		if !e.ok {
			faultIdx = append(faultIdx, i)
			hit = true
		}
	}
	// what is referenced afterwards must be complete
	if run.afterErr != nil {
		c.violation("c13-partial-output-referenced", "after the merge the MetaStore references something unreadable: "+run.afterErr.Error(), desc)
		return
	}
	beforeP, afterP := run.before.ptrs(), make([]int64, 0)
	for _, f := range run.after.files {
		afterP = append(afterP, pt.z(f.ptr))
	}
	committed := false
	for _, cl := range run.calls {
		if cl.Kind == "Update" && !cl.Failed {
			committed = true
		}
	}
	sameRows := sameCounts(run.before.tagCounts(), run.after.tagCounts())
	samePtrs := gSameStrings(gSortedPtrs(run.before), gSortedPtrs(run.after))
	// D3 signatures (FileSystemDataStore as MetaStore only)
	orphanSig := ""
	if !committed && !samePtrs && fsKind {
		// outputs whose cleanup TombstoneFile was failed by injection, all sources still there
		failedTomb := map[string]bool{}
		closedOK := map[string]bool{}
		for _, cl := range run.calls {
			if cl.Kind == "Tombstone" && cl.Failed {
				failedTomb[cl.Pointer] = true
			}
			if cl.Kind == "Close" && !cl.Failed {
				closedOK[cl.Pointer] = true
			}
		}
		ok := true
		for _, f := range run.before.files {
			if run.after.byPtr[f.ptr] == nil {
				ok = false
			}
		}
		for _, f := range run.after.files {
			if run.before.byPtr[f.ptr] == nil && !(failedTomb[f.ptr] && closedOK[f.ptr]) {
				ok = false
			}
		}
		if ok {
			orphanSig = sigFsOrphanOutput
		}
	}
	if !committed {
		if !sameRows || !samePtrs {
			d2 := gCopyDesc(desc)
			d2["before"], d2["after"] = gSortedPtrs(run.before), gSortedPtrs(run.after)
			if orphanSig == "" {
				c.violation("c13-aborted-content-changed", fmt.Sprintf("Merge did not commit (err=%v) but the visible content changed (rows same=%v, files same=%v)", run.err, sameRows, samePtrs), d2)
			}
		}
		if run.err == nil && len(run.calls) > 1 {
			c.violation("c13-nil-without-commit", "Merge returned nil without committing although it made store calls", desc)
		}
	} else {
		if !sameRows {
			c.violation("c13-committed-rows-changed", "Merge committed but the stored row multiset changed", desc)
		}
		if run.stats == nil {
			c.violation("c13-committed-without-stats", fmt.Sprintf("Merge committed but returned nil stats (err=%v)", run.err), desc)
		}
	}
	// the case
	files := make([]string, 0, len(run.yielded))
	for _, p := range run.yielded {
		if f := run.before.byPtr[p]; f != nil {
			files = append(files, gFileCoq(f, pop, false))
		}
	}
	orders := gPartitionOrders(run.calls, run.before, groups)
	po := make([]string, len(orders))
	for i, o := range orders {
		po[i] = coqStrList(o)
	}
	evc := make([]string, len(evs))
	for i, e := range evs {
		evc[i] = fmt.Sprintf("E %s %s", e.call, coqBool(e.ok))
	}
	fi := make([]string, len(faultIdx))
	for i, x := range faultIdx {
		fi[i] = coqNat(x)
	}
	kind := "MSMemory"
	if fsKind {
		kind = "MSFs"
	}
	term := fmt.Sprintf("GCommit %s %s %s %s %s %s %s %s %s %s %s", gCoqCfg(cfg), coqList(files), coqBool(run.withAbort), kind, gCoqZs(outs), coqList(po),
		coqList(fi), coqList(evc), ret, gCoqZs(beforeP), gCoqZs(afterP))
	desc["events"] = len(evs)
	desc["committed"] = committed
	sh.add(c, term, desc)
	c.count([]string{"C13"}, term, hit, desc)
	c.rep.TracesValidated++
	c.dist("g13_ret", fmt.Sprintf("fs=%v %s", fsKind, ret))
	for _, f := range run.faults {
		c.dist("g13_fault_kind", f.Kind)
	}
	c.dist("g13_faults_per_run", fmt.Sprint(len(run.faults)))

	// visible content at points of a run that has not committed
	addVis := func(seen []int64, sig, where string) {
		d := gCopyDesc(desc)
		d["kind"], d["where"] = "visible", where
		if sig != "" {
			d["sig"] = sig
		}
		t := fmt.Sprintf("GVis %s %s", gCoqZs(beforeP), gCoqZs(seen))
		sh.add(c, t, d)
		c.count([]string{"C13"}, t+where+fmt.Sprint(scen, pi), true, nil)
	}
	if run.midDiff != nil {
		seen := make([]int64, 0)
		extraOK := true
		closed := map[string]bool{}
		for _, cl := range run.calls {
			if cl.Kind == "Close" && !cl.Failed {
				closed[cl.Pointer] = true
			}
		}
		seenSet := map[string]bool{}
		for _, p := range run.midDiff.seen {
			seen = append(seen, pt.z(p))
			seenSet[p] = true
			if run.before.byPtr[p] == nil && !closed[p] {
				extraOK = false
			}
		}
		for _, f := range run.before.files {
			if !seenSet[f.ptr] {
				extraOK = false
			}
		}
		sig := ""
		if fsKind && extraOK {
			sig = sigFsVisibleBeforeUpdate
		}
		addVis(seen, sig, "mid-run "+run.midDiff.where)
		c.dist("g13_visible", fmt.Sprintf("fs=%v mid-run differs", fsKind))
	} else if run.midSame > 0 {
		addVis(beforeP, "", fmt.Sprintf("mid-run (%d samples, all equal)", run.midSame))
		c.dist("g13_visible", fmt.Sprintf("fs=%v mid-run equal", fsKind))
	}
	if !committed {
		addVis(afterP, orphanSig, "after an uncommitted Merge returned")
	}
}

func gSortedPtrs(s *gSnap) []string {
	out := make([]string, 0, len(s.files))
	for _, f := range s.files {
		out = append(out, filepath.Base(f.ptr))
	}
	sort.Strings(out)
	return out
}

func gCopyDesc(d map[string]any) map[string]any {
	o := make(map[string]any, len(d)+2)
	for k, v := range d {
		o[k] = v
	}
	return o
}

// ---------------------------------------------------------------- single flight

func gSingleFlight(c *Ctx, sh *shard, scen int) {
	st := gNewStores(c, false, "")
	pop := gNewPop(c)
	pop.nParts = 1 + c.intn(2)
	for w := 0; w < 2; w++ {
		pop.writeFiles(c, st.meta, st.data, c.gGenWriterCfg(), 2, 1+c.intn(3), 0)
	}
	lim := gLimits{rows: 1000, bytes: 1 << 30, fileSize: 1 << 40, files: 10}
	cfg := lim.engineConfig(c)
	fs := newGFaultStore(st.data)
	lm := newGLogMeta(st.meta)
	lm.logCall = fs.metaLog
	eng, err := bs.NewBloomSearchEngine(cfg, lm, fs)
	must(err)

	// every call kind gets its turn (the post-commit cleanup, "Tombstone", twice per round of eight: it is where
	// the single-flight section ends)
	blockKind := []string{"Tombstone", "Iter", "CreateFile", "OpenFile", "Read", "Tombstone", "Write", "Close", "Update"}[scen%9]
	c.intn(8) // keeps the random stream of the later draws as it was
	failFirst := c.chance(0.3) && blockKind != "Tombstone" && blockKind != "Iter" // the blocked Merge then fails at that call
	var mu sync.Mutex
	var events []string
	callers := map[int64]int{}
	logEv := func(s string) { mu.Lock(); events = append(events, s); mu.Unlock() }
	entered := make(chan struct{})
	release := make(chan struct{})
	var once sync.Once
	hook := func(kind string) {
		gid := curGoroutineID()
		mu.Lock()
		cid, ok := callers[gid]
		mu.Unlock()
		if !ok {
			cid = 99 // a store call from a goroutine that is not inside a tracked Merge
		}
		logEv(fmt.Sprintf("SfCall %d%%nat", cid))
		if kind == blockKind && cid == 1 {
			once.Do(func() {
				close(entered)
				<-release
			})
		}
	}
	fs.onCall = func(kind, _ string) { hook(kind) }
	lm.onCall = func(kind string) { hook(kind) }
	if failFirst {
		if blockKind == "Update" {
			lm.updateFail = func(int) error { return errInjected }
		} else {
			fs.fault = func(kind string, nth int, _ string) error {
				if kind == blockKind && nth == 0 {
					return errInjected
				}
				return nil
			}
		}
	}
	type res struct {
		stats *bs.MergeStats
		err   error
	}
	call := func(cid int) res {
		mu.Lock()
		callers[curGoroutineID()] = cid
		mu.Unlock()
		logEv(fmt.Sprintf("SfTry %d%%nat", cid))
		s, e := eng.Merge(context.Background())
		logEv(fmt.Sprintf("SfRet %d%%nat %s", cid, coqBool(errors.Is(e, bs.ErrMergeInProgress))))
		mu.Lock()
		delete(callers, curGoroutineID())
		mu.Unlock()
		return res{s, e}
	}
	done1 := make(chan res, 1)
	go func() { done1 <- call(1) }()
	desc := map[string]any{"kind": "single-flight", "scenario": scen, "blocked_in": blockKind, "first_fails": failFirst}
	select {
	case <-entered:
	case r := <-done1:
		// the blocking call kind did not occur (e.g. nothing to merge): still a valid trace
		desc["note"] = fmt.Sprintf("first Merge finished without reaching %s: err=%v", blockKind, r.err)
		gEmitSingle(c, sh, events, desc, false)
		return
	case <-time.After(20 * time.Second):
		c.rep.Notes = append(c.rep.Notes, "g_commit: single-flight setup timed out")
		close(release)
		return
	}
	// the first Merge is inside a store call: overlapping calls, from this and another goroutine
	nCallsBefore := len(fs.snapshotCalls())
	overlap := func(cid int) (res, bool) {
		ch := make(chan res, 1)
		go func() { ch <- call(cid) }()
		select {
		case r := <-ch:
			return r, true
		case <-time.After(5 * time.Second):
			return res{}, false
		}
	}
	for _, cid := range []int{2, 3} {
		r, returned := overlap(cid)
		if !returned {
			c.violation("c13-overlap-blocked", fmt.Sprintf("overlapping Merge #%d did not return while the first Merge was inside %s", cid, blockKind), desc)
			close(release)
			return
		}
		if !errors.Is(r.err, bs.ErrMergeInProgress) || r.stats != nil {
			c.violation("c13-overlap-not-refused", fmt.Sprintf("overlapping Merge #%d returned stats=%v err=%v instead of ErrMergeInProgress", cid, r.stats != nil, r.err), desc)
		}
	}
	nCallsAfter := len(fs.snapshotCalls())
	if nCallsAfter != nCallsBefore {
		c.violation("c13-overlap-store-call", fmt.Sprintf("%d store calls were made while the first Merge was blocked", nCallsAfter-nCallsBefore), desc)
	}
	close(release)
	r1 := <-done1
	if errors.Is(r1.err, bs.ErrMergeInProgress) {
		c.violation("c13-first-refused", "the first Merge was refused", desc)
	}
	// the lock must be released on every path: a later Merge is not refused
	fs.fault, lm.updateFail = nil, nil
	r4 := call(4)
	if errors.Is(r4.err, bs.ErrMergeInProgress) {
		c.violation("c13-lock-leaked", fmt.Sprintf("a Merge after the first one returned (err=%v) is still refused", r1.err), desc)
	}
	gEmitSingle(c, sh, events, desc, true)
}

func gEmitSingle(c *Ctx, sh *shard, events []string, desc map[string]any, overlapped bool) {
	items := make([]string, len(events))
	copy(items, events)
	term := "GSingle " + coqList(items)
	desc["events"] = len(events)
	sh.add(c, term, desc)
	c.count([]string{"C13"}, term+fmt.Sprint(desc["scenario"]), overlapped, desc)
	c.rep.TracesValidated++
	c.dist("g13_single_flight", fmt.Sprintf("blocked_in=%v overlapped=%v", desc["blocked_in"], overlapped))
}
