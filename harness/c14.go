package main

// C14: queries concurrent with flushes and merges, on both shipped MetaStores
// (MemoryMetaStore, FileSystemDataStore as MetaStore), with the real FileSystemDataStore
// as DataStore. Every store-level action of every actor (MetaStore snapshot / directory
// listing / per-file parse, OpenFile of a query, writer Close = publish, MetaStore.Update,
// TombstoneFile, acknowledgement) is one step of a cooperative scheduler: only the goroutine
// holding the baton performs its action, so the log is a faithful total order, and the
// scheduler decides -- by script for the interesting windows, at random otherwise -- who goes
// next. The log is replayed through Model/MetaStores.v; what every query returned is compared
// with the model and judged: nil error => every row acknowledged before the query started
// exactly once, nothing that was not ingested.

import (
	"context"
	"fmt"
	"io"
	"iter"
	"os"
	"path/filepath"
	"reflect"
	"sort"
	"strings"
	"sync"
	"sync/atomic"
	"time"

	bs "github.com/danthegoodman1/bloomsearch"
)

func init() { register("c14", []string{"C14"}, runC14) }

const runnerFM = "Model.MetaStores Cases.RunnerFM"

type c14ActorKey struct{}

// ---------------------------------------------------------------- cooperative scheduler

type c14Task struct {
	actor string // "q0", "merge", "flush"
	kind  string // snap list parse open close update tomb ack start end create
	grant chan struct{}
	at    time.Time
}

type c14Hold struct {
	match func(t *c14Task) bool
	until func(s *c14Sched) bool
}

type c14Sched struct {
	mu       sync.Mutex
	waiting  []*c14Task
	busy     bool
	log      []string
	kinds    []string // actor:kind per logged step, for scripts
	holds    []c14Hold
	pick     func(n int) int
	lastMove time.Time
	forced   int
	stop     chan struct{}
	done     chan struct{}
}

func newC14Sched(pick func(n int) int) *c14Sched {
	s := &c14Sched{pick: pick, stop: make(chan struct{}), done: make(chan struct{}), lastMove: time.Now()}
	go s.loop()
	return s
}

func (s *c14Sched) loop() {
	defer close(s.done)
	for {
		select {
		case <-s.stop:
			return
		default:
		}
		s.mu.Lock()
		if !s.busy && len(s.waiting) > 0 {
			// let the others arrive: everyone released earlier runs until its next store call
			newest := s.waiting[0].at
			for _, t := range s.waiting {
				if t.at.After(newest) {
					newest = t.at
				}
			}
			if time.Since(newest) > 1500*time.Microsecond && time.Since(s.lastMove) > 1500*time.Microsecond {
				var elig []int
				for i, t := range s.waiting {
					held := false
					for _, h := range s.holds {
						if h.match(t) && !h.until(s) {
							held = true
						}
					}
					if !held {
						elig = append(elig, i)
					}
				}
				if len(elig) == 0 && time.Since(s.lastMove) > 300*time.Millisecond {
					// everything that could move is held: the script cannot make progress; let go
					for i := range s.waiting {
						elig = append(elig, i)
					}
					s.forced++
				}
				if len(elig) > 0 {
					i := elig[s.pick(len(elig))]
					t := s.waiting[i]
					s.waiting = append(s.waiting[:i], s.waiting[i+1:]...)
					s.busy = true
					s.lastMove = time.Now()
					close(t.grant)
				}
			}
		}
		s.mu.Unlock()
		time.Sleep(300 * time.Microsecond)
	}
}

// enter blocks until the scheduler hands the baton to this task.
func (s *c14Sched) enter(actor, kind string) {
	t := &c14Task{actor: actor, kind: kind, grant: make(chan struct{}), at: time.Now()}
	s.mu.Lock()
	s.waiting = append(s.waiting, t)
	s.mu.Unlock()
	<-t.grant
}

// leave appends the step's labels and returns the baton.
func (s *c14Sched) leave(actor, kind string, labels ...string) {
	s.mu.Lock()
	s.log = append(s.log, labels...)
	s.kinds = append(s.kinds, actor+":"+kind)
	s.busy = false
	s.lastMove = time.Now()
	s.mu.Unlock()
}

func (s *c14Sched) do(actor, kind string, f func() []string) {
	s.enter(actor, kind)
	labels := f()
	s.leave(actor, kind, labels...)
}

func (s *c14Sched) count(k string) int {
	n := 0
	for _, x := range s.kinds {
		if x == k {
			n++
		}
	}
	return n
}

func (s *c14Sched) shutdown() {
	close(s.stop)
	<-s.done
}

// ---------------------------------------------------------------- one run

type c14File struct {
	ptr   string
	rows  []int
	there bool
	flush bool // written by a flush (not a merge output)
	acked bool // an acknowledgement covering its rows was delivered (done channel, or a Flush that returned nil)
}

type c14Query struct {
	id        int
	todo      []int // mirror of the model's todo (file ids; one block per file)
	yielded   []int
	rows      []int
	err       error
	startStep int
	endStep   int
	acked0    map[int]bool
}

type c14MergeRec struct {
	srcs      []int
	srcRows   map[int]bool
	startStep int
	endStep   int
}

type c14Run struct {
	c         *Ctx
	fsMeta    bool
	sched     *c14Sched
	dir       string
	data      *bs.FileSystemDataStore
	mem       *bs.MemoryMetaStore
	mu        sync.Mutex // mirror state (only touched by the baton holder, but be safe)
	files     []*c14File
	byPtr     map[string]int
	meta      []int // MemoryMetaStore content in the model's order
	queries   []*c14Query
	acked     map[int]bool
	ingest    map[int]bool
	flushRows []int
	flushFile int
	merge     *c14MergeRec
	merges    []*c14MergeRec
	mergeCand []int
	scanMu    sync.Mutex
	scanQ     *c14Query
	scanGid   int64
	scanOpen  bool // a scan step (list or parse) holds the baton
	scanKind  string
	scanFile  int
	bad       []string

	ingMu       sync.Mutex
	ingested    []int       // rows whose IngestRows call has returned, in order
	ackOnlyTry  bool        // the ingest actor is handing an ack-only request (no buffered rows) to the flush queue
	barrierSet  atomic.Bool // the scripted Flush barrier is settled: it returned, or it sits in the flush queue
	barrierOpen atomic.Bool // a scripted barrier Flush has been called and has not returned
}

// ackLabels: an acknowledgement covering these rows was delivered (the batch's done channel
// received nil, or a Flush called after their IngestRows returned nil: Flush's contract).
// The model's LFAck f is the FIRST acknowledgement that covers flush file f. Baton holder only.
func (h *c14Run) ackLabels(rows []int) []string {
	cov := map[int]bool{}
	for _, id := range rows {
		cov[id] = true
		h.acked[id] = true
	}
	inFile := map[int]bool{}
	var labels []string
	for i, f := range h.files {
		if !f.flush {
			continue
		}
		all := len(f.rows) > 0
		for _, id := range f.rows {
			inFile[id] = true
			all = all && cov[id]
		}
		if all && !f.acked {
			f.acked = true
			labels = append(labels, fmt.Sprintf("LFAck %d", i))
		}
	}
	var homeless []int
	for _, id := range rows {
		if !inFile[id] {
			homeless = append(homeless, id)
		}
	}
	if len(homeless) > 0 {
		h.bad = append(h.bad, fmt.Sprintf("rows %v were acknowledged before any file was created for them", homeless))
	}
	return labels
}

func (h *c14Run) fileOf(ptr []byte) int {
	if id, ok := h.byPtr[string(ptr)]; ok {
		return id
	}
	return -1
}

func coqNatList(l []int) string {
	items := make([]string, len(l))
	for i, x := range l {
		items[i] = fmt.Sprint(x)
	}
	return coqList(items)
}

func actorOf(ctx context.Context) string {
	if a, ok := ctx.Value(c14ActorKey{}).(string); ok {
		return a
	}
	return "flush"
}

// ---- DataStore wrapper

type c14Data struct{ h *c14Run }

type c14Writer struct {
	h     *c14Run
	inner io.WriteCloser
	actor string
	file  int
}

func (d *c14Data) CreateFile(ctx context.Context) (io.WriteCloser, []byte, error) {
	h := d.h
	actor := actorOf(ctx)
	var w io.WriteCloser
	var ptr []byte
	var err error
	file := -1
	h.sched.do(actor, "create", func() []string {
		w, ptr, err = h.data.CreateFile(ctx)
		if err != nil {
			return nil
		}
		file = len(h.files)
		h.byPtr[string(ptr)] = file
		if actor == "merge" {
			var rows []int
			srcs := append([]int(nil), h.mergeCand...)
			srcRows := map[int]bool{}
			for _, s := range srcs {
				rows = append(rows, h.files[s].rows...)
				for _, r := range h.files[s].rows {
					srcRows[r] = true
				}
			}
			h.files = append(h.files, &c14File{ptr: string(ptr), rows: rows})
			h.merge = &c14MergeRec{srcs: srcs, srcRows: srcRows, startStep: len(h.sched.log)}
			h.merges = append(h.merges, h.merge)
			return []string{fmt.Sprintf("LMStart %s", coqNatList(srcs)), fmt.Sprintf("LMCreate [%s]", coqNatList(rows))}
		}
		h.files = append(h.files, &c14File{ptr: string(ptr), rows: append([]int(nil), h.flushRows...), flush: true})
		h.flushFile = file
		return []string{fmt.Sprintf("LFCreate [%s]", coqNatList(h.flushRows))}
	})
	if err != nil {
		return nil, nil, err
	}
	return &c14Writer{h: h, inner: w, actor: actor, file: file}, ptr, nil
}

func (w *c14Writer) Write(p []byte) (int, error) { return w.inner.Write(p) }

func (w *c14Writer) Close() error {
	var err error
	w.h.sched.do(w.actor, "close", func() []string {
		err = w.inner.Close()
		if err != nil {
			return nil
		}
		w.h.files[w.file].there = true
		if w.actor == "merge" {
			return []string{"LMPublish"}
		}
		return []string{fmt.Sprintf("LFPublish %d", w.file)}
	})
	return err
}

func (w *c14Writer) Abort() error {
	return w.inner.(interface{ Abort() error }).Abort()
}

func (d *c14Data) OpenFile(ctx context.Context, ptr []byte) (io.ReadSeekCloser, error) {
	h := d.h
	actor := actorOf(ctx)
	if !strings.HasPrefix(actor, "q") {
		return h.data.OpenFile(ctx, ptr)
	}
	var rd io.ReadSeekCloser
	var err error
	h.sched.do(actor, "open", func() []string {
		rd, err = h.data.OpenFile(ctx, ptr)
		var qid int
		fmt.Sscanf(actor, "q%d", &qid)
		q := h.queries[qid]
		f := h.fileOf(ptr)
		idx := -1
		for i, x := range q.todo {
			if x == f {
				idx = i
				break
			}
		}
		if idx < 0 {
			h.bad = append(h.bad, fmt.Sprintf("query %d opened file %d which the MetaStore did not yield to it", qid, f))
			return nil
		}
		q.todo = append(q.todo[:idx], q.todo[idx+1:]...)
		return []string{fmt.Sprintf("LQRead %d %d %s", qid, idx, coqBool(err == nil))}
	})
	return rd, err
}

func (d *c14Data) TombstoneFile(ctx context.Context, ptr []byte) error {
	h := d.h
	actor := actorOf(ctx)
	var err error
	h.sched.do(actor, "tomb", func() []string {
		err = h.data.TombstoneFile(ctx, ptr)
		f := h.fileOf(ptr)
		if f < 0 {
			return nil
		}
		h.files[f].there = false
		if actor == "merge" {
			if h.merge != nil {
				h.merge.endStep = len(h.sched.log) + 1
			}
			return []string{fmt.Sprintf("LMRemove %d", f)}
		}
		return []string{fmt.Sprintf("LFFail %d", f)}
	})
	return err
}

// ---- MetaStore wrapper

type c14Meta struct{ h *c14Run }

func (m *c14Meta) inner() bs.MetaStore {
	if m.h.fsMeta {
		return m.h.data
	}
	return m.h.mem
}

func (m *c14Meta) GetMaybeFilesForQuery(ctx context.Context, pf *bs.QueryPrefilter) iter.Seq2[bs.MaybeFile, error] {
	h := m.h
	actor := actorOf(ctx)
	if !strings.HasPrefix(actor, "q") {
		// the merge's own scan: one step, no label (the model's LMStart carries what it found)
		return func(yield func(bs.MaybeFile, error) bool) {
			var files []bs.MaybeFile
			var ferr error
			h.sched.do(actor, "mscan", func() []string {
				h.mergeCand = nil
				for f, err := range m.inner().GetMaybeFilesForQuery(ctx, pf) {
					if err != nil {
						ferr = err
						break
					}
					files = append(files, f)
					if id := h.fileOf(f.PointerBytes); id >= 0 {
						h.mergeCand = append(h.mergeCand, id)
					}
				}
				sort.Ints(h.mergeCand)
				return nil
			})
			if ferr != nil {
				yield(bs.MaybeFile{}, ferr)
				return
			}
			for _, f := range files {
				if !yield(f, nil) {
					return
				}
			}
		}
	}
	var qid int
	fmt.Sscanf(actor, "q%d", &qid)
	q := h.queries[qid]
	if !h.fsMeta {
		return func(yield func(bs.MaybeFile, error) bool) {
			next, stop := iter.Pull2(h.mem.GetMaybeFilesForQuery(ctx, pf))
			defer stop()
			first := true
			for {
				var f bs.MaybeFile
				var err error
				var ok bool
				h.sched.do(actor, "snap", func() []string {
					f, err, ok = next()
					var labels []string
					if first {
						first = false
						// the model takes the snapshot here; mirror its todo (meta order)
						q.todo = append([]int(nil), h.meta...)
						labels = []string{fmt.Sprintf("LQSnap %d", qid)}
					}
					if ok && err == nil {
						q.yielded = append(q.yielded, h.fileOf(f.PointerBytes))
					}
					return labels
				})
				if !ok {
					return
				}
				if !yield(f, err) {
					return
				}
			}
		}
	}
	// FileSystemDataStore as MetaStore: the pause hooks inside the scan are the step boundaries
	return func(yield func(bs.MaybeFile, error) bool) {
		h.scanMu.Lock()
		defer h.scanMu.Unlock()
		h.scanQ, h.scanGid = q, curGoroutineID()
		defer func() { h.scanQ = nil }()
		for f, err := range h.data.GetMaybeFilesForQuery(ctx, pf) {
			if err == nil {
				h.closeScanStep(true, h.fileOf(f.PointerBytes))
			} else {
				h.closeScanStep(false, -1)
			}
			if !yield(f, err) {
				break
			}
		}
		h.closeScanStep(false, -1)
	}
}

// closeScanStep ends the scan step in progress (a listing, or the parse of one file).
func (h *c14Run) closeScanStep(yielded bool, file int) {
	if !h.scanOpen {
		return
	}
	q := h.scanQ
	actor := fmt.Sprintf("q%d", q.id)
	var labels []string
	switch h.scanKind {
	case "list":
		labels = []string{fmt.Sprintf("LQList %d", q.id)}
	case "parse":
		f := h.scanFile
		if f >= 0 {
			if yielded && file == f {
				q.todo = append(q.todo, f)
				q.yielded = append(q.yielded, f)
			}
			labels = []string{fmt.Sprintf("LQParse %d %d %s", q.id, f, coqBool(yielded && file == f))}
		}
	}
	h.scanOpen = false
	h.sched.leave(actor, h.scanKind, labels...)
}

// pause hook of the store (runs on the scanning goroutine, outside the hook mutex)
func (h *c14Run) onPause(point string, a int64) {
	if h.scanQ == nil || !strings.HasPrefix(point, "fs.scan.") || curGoroutineID() != h.scanGid {
		return
	}
	actor := fmt.Sprintf("q%d", h.scanQ.id)
	switch point {
	case "fs.scan.begin":
		h.sched.enter(actor, "list")
		h.scanOpen, h.scanKind = true, "list"
	case "fs.scan.listed":
		h.closeScanStep(false, -1)
	case "fs.scan.file":
		h.closeScanStep(false, -1) // the previous file was skipped
		h.sched.enter(actor, "parse")
		h.scanOpen, h.scanKind, h.scanFile = true, "parse", -2
	}
}

// event sink: learns which file the parse step is about
func (h *c14Run) onEvent(e bs.VerifEvent) {
	switch e.Kind {
	case "fq.try":
		h.ackOnlyTry = e.A > 0 && e.B == 0
	case "fq.sent":
		if h.ackOnlyTry && h.barrierOpen.Load() {
			// the barrier Flush is queued behind the flush in flight: it cannot return before that one is done
			h.barrierSet.Store(true)
		}
		h.ackOnlyTry = false
	}
	if e.Kind == "fs.scan.file" && h.scanOpen && filepath.Dir(e.S) == h.dir && curGoroutineID() == h.scanGid {
		h.scanFile = h.fileOf([]byte(e.S))
	}
}

func (m *c14Meta) Update(ctx context.Context, writes []bs.WriteOperation, deletes []bs.DeleteOperation) error {
	h := m.h
	actor := actorOf(ctx)
	var err error
	h.sched.do(actor, "update", func() []string {
		err = m.inner().Update(ctx, writes, deletes)
		if err != nil {
			return nil
		}
		if actor == "merge" {
			var dels []int
			for _, d := range deletes {
				dels = append(dels, h.fileOf(d.FilePointerBytes))
			}
			sort.Ints(dels)
			if fmt.Sprint(dels) != fmt.Sprint(h.merge.srcs) {
				h.bad = append(h.bad, fmt.Sprintf("merge deletes %v, its scan found %v", dels, h.merge.srcs))
			}
			if len(writes) != 1 {
				// not what a merge of one group does: the model has no such step
				h.bad = append(h.bad, fmt.Sprintf("merge called Update with %d outputs and %d deletes", len(writes), len(deletes)))
				if !h.fsMeta {
					var nm []int
					for _, x := range h.meta {
						keep := true
						for _, d := range dels {
							keep = keep && x != d
						}
						if keep {
							nm = append(nm, x)
						}
					}
					h.meta = nm
				}
				return nil
			}
			labels := []string{"LMUpdate"}
			out := h.fileOf(writes[0].FilePointerBytes)
			if h.fsMeta {
				for _, d := range dels {
					h.files[d].there = false
					labels = append(labels, fmt.Sprintf("LMRemove %d", d))
				}
			} else {
				var nm []int
				for _, x := range h.meta {
					keep := true
					for _, d := range dels {
						keep = keep && x != d
					}
					if keep {
						nm = append(nm, x)
					}
				}
				h.meta = append(nm, out)
			}
			h.merge.endStep = len(h.sched.log) + len(labels)
			return labels
		}
		f := h.fileOf(writes[0].FilePointerBytes)
		if !h.fsMeta {
			h.meta = append(h.meta, f)
		}
		return []string{fmt.Sprintf("LFUpdate %d", f)}
	})
	return err
}

// ---------------------------------------------------------------- scenarios

type c14Plan struct {
	name    string
	initial int // flushed, acknowledged files before anything concurrent
	queries int
	merges  int
	flushes int
	// barriers: Flush calls by a caller of its own, each a barrier: a nil return acknowledges every row
	// whose IngestRows returned before the call. Random runs call them at random steps.
	barriers int
	// scripted: one Flush is called while a flush sits between its writer's Close and its
	// MetaStore.Update; the query starts once that Flush has returned or is queued behind the flush
	barrierInWindow bool
	holds           func(h *c14Run) []c14Hold
}

func c14Plans() []c14Plan {
	isQ := func(t *c14Task) bool { return strings.HasPrefix(t.actor, "q") }
	return []c14Plan{
		{name: "query-inside-merge-window", initial: 3, queries: 1, merges: 1,
			holds: func(h *c14Run) []c14Hold {
				return []c14Hold{
					// the query waits until the merge output is published; the merge's Update waits for the query
					{match: func(t *c14Task) bool { return isQ(t) && t.kind != "start" }, until: func(s *c14Sched) bool { return s.count("merge:close") > 0 }},
					{match: func(t *c14Task) bool { return t.actor == "merge" && t.kind == "update" }, until: func(s *c14Sched) bool { return s.count("q0:end") > 0 }},
				}
			}},
		{name: "snapshot-then-whole-merge", initial: 3, queries: 1, merges: 1,
			holds: func(h *c14Run) []c14Hold {
				return []c14Hold{
					// the merge waits for the query's snapshot / listing; the query's next steps wait for the end of the merge
					{match: func(t *c14Task) bool { return t.actor == "merge" }, until: func(s *c14Sched) bool { return s.count("q0:snap")+s.count("q0:list") > 0 }},
					{match: func(t *c14Task) bool { return isQ(t) && (t.kind == "open" || t.kind == "parse") }, until: func(s *c14Sched) bool { return s.count("merge:tomb") >= 3 }},
				}
			}},
		{name: "reads-interleaved-with-removal", initial: 4, queries: 1, merges: 1,
			holds: func(h *c14Run) []c14Hold {
				return []c14Hold{
					{match: func(t *c14Task) bool { return t.actor == "merge" && t.kind == "update" }, until: func(s *c14Sched) bool { return s.count("q0:open") >= 2 }},
					{match: func(t *c14Task) bool { return isQ(t) && t.kind == "open" && h.sched.count("q0:open") >= 2 }, until: func(s *c14Sched) bool { return s.count("merge:tomb") >= 4 }},
				}
			}},
		{name: "query-after-commit-before-cleanup", initial: 10, queries: 1, merges: 1,
			holds: func(h *c14Run) []c14Hold {
				return []c14Hold{
					// a merge of as many files as one operation takes; the query runs when the merge's MetaStore.Update
					// has returned; whatever the merge does after that Update (cleanup) waits for the end of the query
					{match: func(t *c14Task) bool { return isQ(t) }, until: func(s *c14Sched) bool { return s.count("merge:update") > 0 }},
					{match: func(t *c14Task) bool {
						return t.actor == "merge" && h.sched.count("merge:update") > 0
					}, until: func(s *c14Sched) bool { return s.count("q0:end") > 0 }},
				}
			}},
		{name: "flush-during-query", initial: 2, queries: 1, flushes: 2,
			holds: func(h *c14Run) []c14Hold {
				return []c14Hold{
					{match: func(t *c14Task) bool { return isQ(t) && (t.kind == "open" || t.kind == "parse") }, until: func(s *c14Sched) bool { return s.count("flush:ack") >= 1 }},
				}
			}},
		{name: "flush-barrier-in-commit-window", initial: 2, queries: 1, flushes: 1, barrierInWindow: true,
			holds: func(h *c14Run) []c14Hold {
				return []c14Hold{
					// the concurrent flush stops between its Close and its MetaStore.Update until the query is over
					{match: func(t *c14Task) bool {
						return t.actor == "flush" && t.kind == "update" && h.sched.count("flush:update") >= 2
					}, until: func(s *c14Sched) bool { return s.count("q0:end") > 0 }},
					// the query starts when the barrier Flush has returned (and its acknowledgement is logged) or is queued
					{match: func(t *c14Task) bool { return isQ(t) && t.kind == "start" }, until: func(s *c14Sched) bool { return h.barrierSet.Load() }},
				}
			}},
		{name: "random", initial: 3, queries: 3, merges: 2, flushes: 2, barriers: 2},
		{name: "random", initial: 4, queries: 2, merges: 1, flushes: 3, barriers: 3},
	}
}

func runC14(c *Ctx) {
	// a store that no longer behaves like the model can make the harness itself trip (an unexpected
	// error, an index out of range): report that as a broken correspondence, not as a crash
	defer func() {
		if r := recover(); r != nil {
			c.mismatch("harness-panic", fmt.Sprintf("the harness could not drive the store as the model expects: %v", r), nil)
		}
	}()
	c.rep.Rule = "concurrent runs on both MetaStores (MemoryMetaStore; FileSystemDataStore as MetaStore), FileSystemDataStore as DataStore: 2-4 acknowledged files, then 1-3 queries x 0-2 merges x 0-3 flushes " +
		"under a cooperative scheduler in which every store-level action is one step; five scripted windows (query between a merge's publish and its Update; snapshot/listing, then a whole merge, then the reads; reads interleaved with the source removal; flush and ack during a query; " +
		"a Flush barrier called while a flush sits between its writer's Close and its MetaStore.Update, then a whole query, then the Update) " +
		"and randomly scheduled runs with 2-3 Flush barriers at random steps; acknowledgements = nil on the batch's done channel, or (a third of the batches have none) Flush returning nil, or a barrier Flush returning nil (it covers every row whose IngestRows had returned); " +
		"plus two direct probes of MemoryMetaStore (Update between yields of a running iterator; Update attempted while the snapshot holds the read lock). " +
		"Per run: log = run of Model/MetaStores.v, per query rows/error/yielded files = the model's, and: nil error => acknowledged-before-start rows exactly once, nothing not ingested. " +
		"Non-trivial: a query that overlaps a merge or a flush step. Distinct by log text."
	scratch := filepath.Join(c.Out, "fs14")
	os.RemoveAll(scratch)
	must(os.MkdirAll(scratch, 0o755))
	sh := c.newShard("f14", runnerFM, "caseM", "mismatchesM", "violationsM")
	sh.limit = 60
	c14MemProbes(c)
	// the degenerate schedule: a query after a merge that failed, or that its caller gave up on, half-way through
	// several groups (FileSystemDataStore as both stores): every acknowledged row exactly once
	for i := 0; i < c.pick(12, 60); i++ {
		c15MultiGroupMergeFault(c, filepath.Join(scratch, fmt.Sprintf("mg%d", i)), i, "C14", "c14-after-abandoned-merge")
	}
	plans := c14Plans()
	reps := c.pick(20, 300)
	n := 0
	for rep := 0; rep < reps; rep++ {
		for _, p := range plans {
			for _, fsMeta := range []bool{false, true} {
				c14Scenario(c, sh, filepath.Join(scratch, fmt.Sprintf("r%d", n)), n, p, fsMeta)
				n++
			}
		}
	}
}

// c14CommittedMetadataStable: what a flush committed to the MemoryMetaStore for a file stays what it is while
// the engine goes on ingesting and flushing (the engine recycles a good deal of its per-flush state). After each
// of a few flushes: the block ranges of every earlier file are the ones recorded at its commit, and a query
// whose prefilter selects exactly the first file's ids returns exactly its rows.
func c14CommittedMetadataStable(c *Ctx, idx int) {
	ctx := context.Background()
	cfg := bs.DefaultBloomSearchEngineConfig()
	cfg.MaxBufferedTime = time.Hour
	cfg.MinMaxIndexes = []string{"id"}
	usePart := idx%2 == 1
	if usePart {
		cfg.PartitionFunc = func(row map[string]any) string { p, _ := row["p"].(string); return p }
	}
	meta := bs.NewMemoryMetaStore()
	eng, err := bs.NewBloomSearchEngine(cfg, meta, newMemDataStore())
	must(err)
	eng.Start()
	defer func() {
		sctx, cancel := context.WithTimeout(ctx, 30*time.Second)
		eng.Stop(sctx)
		cancel()
	}()
	type committed struct {
		ranges map[string]bs.MinMaxIndex // partition -> range of "id"
	}
	at := map[string]committed{}
	next := 0
	var firstLo, firstHi int
	for round := 0; round < 3+c.intn(3); round++ {
		n := 2 + c.intn(4)
		batch := make([]map[string]any, n)
		lo := next
		for j := range batch {
			batch[j] = map[string]any{"id": next, "p": []string{"pa", "pb"}[j%2]}
			next++
		}
		if round == 0 {
			firstLo, firstHi = lo, next-1
		}
		done := make(chan error, 1)
		must(eng.IngestRows(ctx, batch, done))
		if round%2 == 1 {
			// rows of the next flush are already buffered when the checks below run
			must(eng.IngestRows(ctx, []map[string]any{{"id": 100000 + next, "p": "pa"}}, nil))
		}
		must(eng.Flush(ctx))
		must(<-done)
		desc := map[string]any{"kind": "committed-metadata-stable", "round": round, "partitioned": usePart}
		for f, err := range meta.GetMaybeFilesForQuery(ctx, nil) {
			must(err)
			cur := map[string]bs.MinMaxIndex{}
			for _, b := range f.Metadata.DataBlocks {
				if r, ok := b.MinMaxIndexes["id"]; ok {
					cur[b.PartitionID] = r
				} else {
					cur[b.PartitionID] = bs.MinMaxIndex{Min: 1, Max: 0} // marks "no range recorded"
				}
			}
			was, seen := at[string(f.PointerBytes)]
			if !seen {
				at[string(f.PointerBytes)] = committed{ranges: cur}
				continue
			}
			if !reflect.DeepEqual(was.ranges, cur) {
				c.violation("c14-committed-metadata-changed", fmt.Sprintf("the block ranges the MemoryMetaStore holds for a committed file changed after its commit: %v, now %v", was.ranges, cur), desc)
			}
		}
		pf := bs.MinMax("id", bs.NumericBetween(int64(firstLo), int64(firstHi)))
		res, err := eng.Query(ctx, bs.NewQuery().MatchPrefilter(pf).Build())
		must(err)
		got := map[int]int{}
		for res.Next() {
			if id, ok := res.Row()["id"].(float64); ok {
				got[int(id)]++
			}
		}
		qerr := res.Err()
		res.Close()
		missing := 0
		for id := firstLo; id <= firstHi; id++ {
			if got[id] != 1 {
				missing++
			}
		}
		c.count([]string{"C14"}, fmt.Sprintf("committed-stable-%d-%d", idx, round), round > 0, desc)
		if qerr == nil && missing > 0 {
			c.violation("c14-acked-rows-omitted", fmt.Sprintf("after %d more flushes a query (nil error) whose prefilter selects the first file's ids %d..%d misses %d of its acknowledged rows", round, firstLo, firstHi, missing), desc)
		}
	}
	c.dist("c14_committed_metadata_probe", fmt.Sprintf("partitioned=%v", usePart))
}

// c14MemProbes: the snapshot of MemoryMetaStore is one atomic step.
func c14MemProbes(c *Ctx) {
	for i := 0; i < c.pick(6, 30); i++ {
		c14CommittedMetadataStable(c, i)
	}
	ctx := context.Background()
	mk := func(i int) ([]byte, *bs.FileMetadata) {
		return []byte(fmt.Sprintf("p%d", i)), &bs.FileMetadata{DataBlocks: []bs.DataBlockMetadata{{Rows: i + 1}}}
	}
	// (1) Update between the yields of a running iterator: the iterator keeps yielding the old set
	m := bs.NewMemoryMetaStore()
	for i := 0; i < 4; i++ {
		p, md := mk(i)
		must(m.Update(ctx, []bs.WriteOperation{{FilePointerBytes: p, FileMetadata: md}}, nil))
	}
	var got []string
	k := 0
	for f, err := range m.GetMaybeFilesForQuery(ctx, nil) {
		must(err)
		got = append(got, string(f.PointerBytes))
		if k == 0 {
			p, md := mk(9)
			must(m.Update(ctx, []bs.WriteOperation{{FilePointerBytes: p, FileMetadata: md}},
				[]bs.DeleteOperation{{FilePointerBytes: []byte("p0")}, {FilePointerBytes: []byte("p1")}, {FilePointerBytes: []byte("p2")}, {FilePointerBytes: []byte("p3")}}))
		}
		k++
	}
	sort.Strings(got)
	if strings.Join(got, ",") != "p0,p1,p2,p3" {
		c.mismatch("c14-mem-snapshot", "MemoryMetaStore: an Update between two yields of a running iterator changed what it yields: "+strings.Join(got, ","), nil)
	}
	c.count([]string{"C14"}, "memprobe-yield", true, map[string]any{"probe": "update between yields", "yielded": got})
	// (2) an Update cannot complete while the snapshot holds the read lock
	m2 := bs.NewMemoryMetaStore()
	p, md := mk(1)
	must(m2.Update(ctx, []bs.WriteOperation{{FilePointerBytes: p, FileMetadata: md}}, nil))
	inLock := make(chan struct{})
	release := make(chan struct{})
	var once sync.Once
	bs.VerifSetPause(func(point string, a int64) {
		if point == "mem.snap.locked" {
			once.Do(func() { close(inLock) })
			<-release
		}
	})
	go func() {
		for range m2.GetMaybeFilesForQuery(ctx, nil) {
		}
	}()
	select {
	case <-inLock:
	case <-time.After(3 * time.Second):
		bs.VerifSetPause(nil)
		c.mismatch("c14-mem-lock", "MemoryMetaStore: GetMaybeFilesForQuery never reached the snapshot under the read lock (mem.snap.locked)", nil)
		return
	}
	updDone := make(chan struct{})
	go func() {
		p2, md2 := mk(2)
		m2.Update(ctx, []bs.WriteOperation{{FilePointerBytes: p2, FileMetadata: md2}}, nil)
		close(updDone)
	}()
	early := false
	select {
	case <-updDone:
		early = true
	case <-time.After(30 * time.Millisecond):
	}
	close(release)
	<-updDone
	bs.VerifSetPause(nil)
	if early {
		c.mismatch("c14-mem-lock", "MemoryMetaStore: Update completed while a snapshot was being taken under the read lock", nil)
	}
	c.count([]string{"C14"}, "memprobe-lock", true, map[string]any{"probe": "update during snapshot", "completed_early": early})
}

func c14Scenario(c *Ctx, sh *shard, dir string, n int, p c14Plan, fsMeta bool) {
	os.RemoveAll(dir)
	h := &c14Run{c: c, fsMeta: fsMeta, dir: dir, byPtr: map[string]int{}, acked: map[int]bool{}, ingest: map[int]bool{}}
	h.data = bs.NewFileSystemDataStore(dir)
	h.mem = bs.NewMemoryMetaStore()
	h.sched = newC14Sched(func(k int) int { return 0 })
	if p.name == "random" {
		// deterministic pseudo-random picks drawn up front (the scheduler runs on its own goroutine)
		picks := make([]int, 4096)
		for i := range picks {
			picks[i] = c.intn(1 << 20)
		}
		i := 0
		h.sched.pick = func(k int) int { i++; return picks[i%len(picks)] % k }
	}
	if p.holds != nil {
		h.sched.holds = p.holds(h)
	}
	bs.VerifSetPause(h.onPause)
	bs.VerifSetSink(h.onEvent)
	defer func() {
		bs.VerifSetPause(nil)
		bs.VerifSetSink(nil)
		os.RemoveAll(dir)
	}()
	cfg := bs.DefaultBloomSearchEngineConfig()
	cfg.MaxBufferedTime = time.Hour
	cfg.MaxQueryConcurrency = 1 + c.intn(2)
	cfg.RowDataCompression = bs.CompressionNone
	cfg.MinMaxIndexes = []string{"id"}
	eng, err := bs.NewBloomSearchEngine(cfg, &c14Meta{h}, &c14Data{h})
	must(err)
	eng.Start()
	bg := context.Background()
	nextRow := 0
	var flushMu sync.Mutex
	flushOnce := func() {
		flushMu.Lock()
		defer flushMu.Unlock()
		k := 1 + c14pick(h, 3)
		// the batch's own done channel, or none at all: then the only acknowledgement is Flush returning nil
		withDone := c14pick(h, 3) > 0
		batch := make([]map[string]any, k)
		var ids []int
		for j := range batch {
			batch[j] = map[string]any{"id": nextRow}
			ids = append(ids, nextRow)
			h.ingest[nextRow] = true
			nextRow++
		}
		h.flushRows = ids
		var ferr error
		if withDone {
			done := make(chan error, 1)
			must(eng.IngestRows(bg, batch, done))
			h.ingMu.Lock()
			h.ingested = append(h.ingested, ids...)
			h.ingMu.Unlock()
			go eng.Flush(bg)
			ferr = <-done
		} else {
			must(eng.IngestRows(bg, batch, nil))
			h.ingMu.Lock()
			h.ingested = append(h.ingested, ids...)
			h.ingMu.Unlock()
			ferr = eng.Flush(bg)
		}
		if ferr != nil {
			h.bad = append(h.bad, "flush failed: "+ferr.Error())
			return
		}
		h.sched.do("flush", "ack", func() []string {
			c.dist("c14_ack", map[bool]string{true: "done channel", false: "Flush return (nil done channel)"}[withDone])
			return h.ackLabels(ids)
		})
	}
	// barrierOnce: Flush by a caller of its own. A nil return acknowledges every row whose IngestRows had returned.
	barrierOnce := func() {
		h.ingMu.Lock()
		covered := append([]int(nil), h.ingested...)
		h.ingMu.Unlock()
		if err := eng.Flush(bg); err != nil {
			h.bad = append(h.bad, "barrier Flush failed: "+err.Error())
			return
		}
		h.sched.do("barrier", "ack", func() []string {
			c.dist("c14_ack", "barrier Flush return")
			return h.ackLabels(covered)
		})
	}
	for i := 0; i < p.initial; i++ {
		flushOnce()
	}
	var barrierAt []int // steps (counted from here) at which the barrier caller calls Flush
	for i := 0; i < p.barriers; i++ {
		barrierAt = append(barrierAt, c14pick(h, 30))
	}
	sort.Ints(barrierAt)
	var wg sync.WaitGroup
	for qi := 0; qi < p.queries; qi++ {
		q := &c14Query{id: qi}
		h.queries = append(h.queries, q)
	}
	startQueries := func() {
		for qi := 0; qi < p.queries; qi++ {
			q := h.queries[qi]
			wg.Add(1)
			go func() {
				defer wg.Done()
				actor := fmt.Sprintf("q%d", q.id)
				h.sched.do(actor, "start", func() []string {
					q.startStep = len(h.sched.log)
					q.acked0 = map[int]bool{}
					for id := range h.acked {
						q.acked0[id] = true
					}
					return []string{"LQStart"}
				})
				// every row satisfies the prefilter that every other query carries (ids are >= 0 and "id" is a
				// minmax key), so the expected answer is the same; what the MetaStore holds for a file must
				// still say so after later batches were buffered and flushed
				qb := bs.NewQuery()
				if (n/2+q.id)%2 == 1 {
					qb = qb.MatchPrefilter(bs.MinMax("id", bs.NumericGreaterThanEqual(0)))
				}
				res, err := eng.Query(context.WithValue(bg, c14ActorKey{}, actor), qb.Build())
				must(err)
				for res.Next() {
					q.rows = append(q.rows, int(res.Row()["id"].(float64)))
				}
				q.err = res.Err()
				res.Close()
				h.sched.do(actor, "end", func() []string {
					q.endStep = len(h.sched.log)
					return []string{fmt.Sprintf("LQEnd %d", q.id)}
				})
			}()
			// queries get their model ids in start order: start them one after the other
			for h.sched.count(fmt.Sprintf("q%d:start", q.id)) == 0 {
				time.Sleep(200 * time.Microsecond)
			}
		}
	}
	if !p.barrierInWindow {
		startQueries()
	}
	if p.merges > 0 {
		wg.Add(1)
		go func() {
			defer wg.Done()
			for mi := 0; mi < p.merges; mi++ {
				h.merge = nil
				_, err := eng.Merge(context.WithValue(bg, c14ActorKey{}, "merge"))
				if h.merge != nil {
					mr := h.merge
					h.sched.do("merge", "mend", func() []string {
						mr.endStep = len(h.sched.log) + 1
						if err != nil {
							return []string{"LMAbort"}
						}
						return []string{"LMEnd"}
					})
				}
			}
		}()
	}
	if p.flushes > 0 {
		wg.Add(1)
		go func() {
			defer wg.Done()
			for fi := 0; fi < p.flushes; fi++ {
				flushOnce()
			}
		}()
	}
	stopBarriers := make(chan struct{})
	barriersDone := make(chan struct{})
	stepCount := func() int {
		h.sched.mu.Lock()
		defer h.sched.mu.Unlock()
		return len(h.sched.kinds)
	}
	// wait until cond holds; false if the other actors finished first
	waitFor := func(cond func() bool) bool {
		for !cond() {
			select {
			case <-stopBarriers:
				return false
			default:
			}
			time.Sleep(200 * time.Microsecond)
		}
		return true
	}
	go func() {
		defer close(barriersDone)
		if p.barrierInWindow {
			// the concurrent flush has closed its writer and waits (held) in front of MetaStore.Update
			if waitFor(func() bool {
				h.sched.mu.Lock()
				defer h.sched.mu.Unlock()
				return h.sched.count("flush:close") > p.initial
			}) {
				h.barrierOpen.Store(true)
				barrierOnce()
				h.barrierOpen.Store(false)
			}
			h.barrierSet.Store(true)
			return
		}
		base := stepCount()
		for _, at := range barrierAt {
			if !waitFor(func() bool { return stepCount() >= base+at }) {
				return
			}
			barrierOnce()
		}
	}()
	if p.barrierInWindow {
		startQueries()
	}
	wg.Wait()
	close(stopBarriers)
	<-barriersDone
	stopCtx, cancel := context.WithTimeout(bg, 10*time.Second)
	must(eng.Stop(stopCtx))
	cancel()
	h.sched.shutdown()

	// ---- the case and the Go-side judgement
	kind := "MemStore"
	if fsMeta {
		kind = "FsMeta"
	}
	var obs []string
	var qdesc []map[string]any
	viol, sig := "", ""
	d3 := false
	nontrivial := false
	for _, q := range h.queries {
		sort.Ints(q.rows)
		yl := append([]int(nil), q.yielded...)
		sort.Ints(yl)
		obs = append(obs, fmt.Sprintf("mkQobs %d %s %s %s", q.id, coqNatList(q.rows), coqBool(q.err != nil), coqNatList(yl)))
		for k := q.startStep; k < q.endStep && k < len(h.sched.log); k++ {
			if strings.HasPrefix(h.sched.log[k], "LM") || strings.HasPrefix(h.sched.log[k], "LF") {
				nontrivial = true
			}
		}
		qd := map[string]any{"query": q.id, "rows": q.rows, "err": fmt.Sprint(q.err), "yielded": yl, "start_step": q.startStep, "end_step": q.endStep}
		qdesc = append(qdesc, qd)
		c.dist("c14_query_outcome", fmt.Sprintf("%s err=%v", kind, q.err != nil))
		if q.err != nil {
			continue
		}
		got := map[int]int{}
		for _, id := range q.rows {
			got[id]++
		}
		var anomalies []int
		var problems []string
		for id := range q.acked0 {
			if got[id] == 0 {
				anomalies = append(anomalies, id)
				problems = append(problems, fmt.Sprintf("row %d acknowledged before the query started is missing", id))
			}
		}
		for id, k := range got {
			if k > 1 {
				anomalies = append(anomalies, id)
				problems = append(problems, fmt.Sprintf("row %d returned %d times", id, k))
			}
			if !h.ingest[id] {
				problems = append(problems, fmt.Sprintf("row %d was never ingested", id))
			}
		}
		if len(problems) == 0 {
			continue
		}
		sort.Strings(problems)
		// known: FS store as MetaStore, every anomalous row belongs to the sources of a merge whose commit window overlaps the query
		known := fsMeta && len(anomalies) > 0
		if known {
			for _, id := range anomalies {
				in := false
				for _, m := range h.merges {
					if m.srcRows[id] && m.startStep <= q.endStep && m.endStep >= q.startStep {
						in = true
					}
				}
				known = known && in
			}
			for _, pr := range problems {
				known = known && !strings.Contains(pr, "never ingested")
			}
		}
		msg := fmt.Sprintf("%s run %d (%s), query %d finished with a nil error: %s", kind, n, p.name, q.id, strings.Join(problems, "; "))
		if known {
			d3 = true
			c.dist("c14_known", p.name)
			if viol == "" {
				viol, sig = msg, sigD3
			}
		} else if viol == "" || sig == sigD3 {
			viol, sig = msg, "c14-snapshot"
		}
	}
	term := fmt.Sprintf("CMeta %s %s %s", kind, coqList(h.sched.log), coqList(obs))
	desc := map[string]any{"kind": kind, "plan": p.name, "run": n, "log": h.sched.log, "queries": qdesc, "forced_releases": h.sched.forced}
	if d3 {
		desc["sig"] = sigD3
	}
	sh.add(c, "("+term+")%nat", desc)
	c.count([]string{"C14"}, term, nontrivial, map[string]any{"kind": kind, "plan": p.name, "steps": len(h.sched.log), "queries": qdesc})
	c.dist("c14_plan", kind+" "+p.name)
	c.rep.TracesValidated++
	for _, b := range h.bad {
		c.mismatch("c14-harness", fmt.Sprintf("%s run %d (%s): %s", kind, n, p.name, b), desc)
	}
	if viol != "" {
		c.violation(sig, viol, desc)
	}
}

func c14pick(h *c14Run, n int) int {
	return h.c.intn(n)
}
