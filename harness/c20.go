package main

// Family Q command: C20 (cursor terminal state), C21 (resources released), C22 (bounded query
// I/O, no starvation), C23 (statistics). One harness run serves whichever of them -props names.

import (
	"os"
)

func init() { register("famq", []string{"C20", "C21", "C22", "C23"}, runFamQ) }

func (c *Ctx) wants(ids ...string) bool {
	if len(c.Props) == 0 {
		return true
	}
	for _, id := range ids {
		if c.Props[id] {
			return true
		}
	}
	return false
}

// the tree under test has the D7 fix unless told otherwise (used once, to re-find D7 on the pinned tree)
func treeFixed() bool { return os.Getenv("VERIF_Q_PINNED") == "" }

func runFamQ(c *Ctx) {
	c.rep.Rule = "family Q: component op sequences on the real Results / fileHandlePool / querySlot through verif_export_q.go wrappers and " +
		"real queries over engines with many files and blocks (instrumented in-memory store, wrapping MetaStore), hook event logs " +
		"replayed step by step through the Coq step functions; property predicates also evaluated directly on the implementation's observations."
	if c.wants("C20", "C23") {
		famqCursor(c)
	}
	if c.wants("C21", "C22") {
		famqComponents(c)
	}
	famqSystem(c)
}

func famqSystem(c *Ctx) {
	sh := c.newShard("qsys", runnerQ, "caseQ", "mismatches", "violations")
	sh.limit = 12
	fixed := treeFixed()
	add := func(kind string) {
		term, desc, key, nontrivial := runSysScenario(c, fixed, kind)
		if term == "" {
			return
		}
		sh.add(c, term, desc)
		c.count([]string{"C20", "C21", "C22", "C23"}, "sys:"+key, nontrivial, desc)
	}
	for i := 0; i < c.pick(12, 100); i++ {
		add("d7")
	}
	for i := 0; i < c.pick(16, 200); i++ {
		add("starve")
	}
	for i := 0; i < c.pick(12, 100); i++ {
		add("lifecycle")
	}
	if c.wants("C20") {
		// a pipeline backed up to its file stage behind a consumer that takes nothing, then ended from outside
		for i := 0; i < c.pick(6, 60) && !qHangSeen; i++ {
			add("saturate")
		}
		// a caller context whose cancellation reaches the query's internal context late
		for i := 0; i < c.pick(10, 100); i++ {
			add("latecancel")
		}
	}
	if c.wants("C21") {
		// a store whose requests honour the context, the query ended while a read is in flight
		for i := 0; i < c.pick(15, 150); i++ {
			add("inread")
		}
	}
	if c.wants("C20", "C21", "C22") {
		// a slot of the full semaphore handed to a parked worker just as its query ends; Close while the
		// semaphore stays full (the parked workers never get a slot)
		for i := 0; i < c.pick(10, 100); i++ {
			add("handoff")
		}
	}
	if c.wants("C23") {
		// block filter regions larger than one chunk read, a failure on a later chunk
		for i := 0; i < c.pick(6, 40); i++ {
			add("bigfilter")
		}
	}
	for i := 0; i < c.pick(100, 1400); i++ {
		add("random")
	}
}

func famqComponents(c *Ctx) {
	sh := c.newShard("qcomp", runnerQ, "caseQ", "mismatches", "violations")
	sh.limit = 400
	if c.wants("C21") {
		for i := 0; i < c.pick(400, 6000); i++ {
			term, desc, key, nontrivial := runPoolScenario(c)
			if term == "" {
				continue
			}
			sh.add(c, term, desc)
			c.count([]string{"C21"}, "pool:"+key, nontrivial, desc)
		}
	}
	if c.wants("C22", "C21") {
		for i := 0; i < c.pick(400, 6000); i++ {
			term, desc, key, nontrivial := runSlotScenario(c)
			sh.add(c, term, desc)
			c.count([]string{"C22", "C21"}, "slot:"+key, nontrivial, desc)
		}
	}
}

func famqCursor(c *Ctx) {
	sh := c.newShard("qcur", runnerQ, "caseQ", "mismatches", "violations")
	sh.limit = 400
	fixed := treeFixed()
	add := func(script string) {
		term, desc, key, nontrivial := runCursorScenario(c, fixed, script)
		if term == "" {
			return
		}
		sh.add(c, term, desc)
		c.count([]string{"C20", "C23"}, "cursor:"+key+term, nontrivial, desc)
	}
	for i := 0; i < c.pick(40, 400); i++ {
		add("d7")
	}
	if c.wants("C20") {
		for i := 0; i < c.pick(60, 600); i++ {
			add("late")
		}
	}
	for i := 0; i < c.pick(500, 6000); i++ {
		add("random")
	}
}
