package main

// C11 / C12: committed merges over populations written by engines with different
// configurations, against Model/MergePlan.v (file grouping, block grouping, data
// effect) — and the properties checked directly on the implementation: rows,
// placement, query answers (C11); layout limits (C12).

import (
	"bytes"
	"context"
	"fmt"
	"regexp"
	"sort"
	"strings"

	bs "github.com/danthegoodman1/bloomsearch"
)

func init() { register("g_merge", []string{"C11", "C12"}, runGMerge) }

func (c *Ctx) gWants(id string) bool { return len(c.Props) == 0 || c.Props[id] }

func runGMerge(c *Ctx) {
	rule := "populations: 2-5 writer engines (compression none/snappy/zstd, fpr 0.001..0.3, minmax key sets {n,m},{n},{m},{},{n,m,140-byte key}) flush 1-3 " +
		"blocks per file over 1-4 partitions (empty, NUL byte, non-ASCII and 131-byte partition ids) into shared stores, some flushes oversized; " +
		"a merging engine with small limits (MaxRowGroupRows 2-12, MaxRowGroupBytes, MaxFileSize and MaxFilesToMergePerOperation chosen at, one below or around sums " +
		"of real block/file sizes) merges 1-3 times (new files in between). Each Merge is one case: the files as the iterator yielded them, the grouping " +
		"reconstructed from the MetaStore.Update call and the rows of the output blocks, compared with plan_files/plan_blocks/out_block evaluated in Coq; " +
		"ties in the candidate sort key are only checked against the property predicates. Non-trivial: the merge formed at least one group. Distinct by case text."
	c.prop("C11").Rule = rule + " C11 on the implementation: row bytes per tag unchanged, every row in a block of its partition whose ranges cover its indexed values, " +
		"15+ queries (field, token, field-token, unique tokens, and/or, regex; with and without partition/minmax prefilters) before vs after."
	c.prop("C12").Rule = rule + " C12 on the implementation: combined blocks within MaxRowGroupRows/MaxRowGroupBytes (actual rows and decoded bytes), one partition, one key set; " +
		"at most MaxFilesToMergePerOperation deletes per Update; grouped files' footprint within MaxFileSize; blockMergeKey bytes vs the model's key on synthetic metadata."
	var sh11, sh12 *shard
	if c.gWants("C11") {
		sh11 = c.newShard("g11", runnerG, "caseG", "mismatches", "violations11")
		sh11.prelude = gPrelude
		sh11.limit = 90
	}
	if c.gWants("C12") {
		sh12 = c.newShard("g12", runnerG, "caseG", "mismatches", "violations12")
		sh12.prelude = gPrelude
		sh12.limit = 90
		gKeyCases(c)
	}
	nScen := c.pick(260, 6000)
	for s := 0; s < nScen; s++ {
		gMergeScenario(c, sh11, sh12, s)
	}
}

// ---------------------------------------------------------------- blockMergeKey

func gKeyCases(c *Ctx) {
	keyShard := c.newShard("g12k", runnerG, "caseG", "mismatches", "violations12")
	keyShard.limit = 400
	parts := []string{"", "a", "b", "ab", "a\x01b", "\x01", "\x01a", "\x02ab", strings.Repeat("x", 127), strings.Repeat("x", 128), strings.Repeat("x", 129), strings.Repeat("y", 300), "é"}
	keys := []string{"", "a", "b", "ab", "n", "m", "\x01", "\x01b", strings.Repeat("k", 128), strings.Repeat("k", 200)}
	genMeta := func() bs.DataBlockMetadata {
		m := bs.DataBlockMetadata{PartitionID: parts[c.intn(len(parts))]}
		nk := c.intn(4)
		if nk > 0 {
			m.MinMaxIndexes = map[string]bs.MinMaxIndex{}
			for i := 0; i < nk; i++ {
				m.MinMaxIndexes[keys[c.intn(len(keys))]] = bs.MinMaxIndex{Min: int64(c.intn(10)), Max: int64(10 + c.intn(10))}
			}
		} else if c.chance(0.5) {
			m.MinMaxIndexes = map[string]bs.MinMaxIndex{}
		}
		return m
	}
	add := func(a, b bs.DataBlockMetadata) {
		ka, kb := bs.VerifBlockMergeKey(&a), bs.VerifBlockMergeKey(&b)
		term := fmt.Sprintf("GKey %s %s %s %s", coqBlockMeta(&a), coqBlockMeta(&b), coqS(ka), coqS(kb))
		desc := map[string]any{"kind": "key", "a": fmt.Sprintf("%q %v", a.PartitionID, sortedKeys(a.MinMaxIndexes)), "b": fmt.Sprintf("%q %v", b.PartitionID, sortedKeys(b.MinMaxIndexes)), "equal": ka == kb}
		keyShard.add(c, term, desc)
		same := a.PartitionID == b.PartitionID && gSameKeySet(a.MinMaxIndexes, b.MinMaxIndexes)
		if (ka == kb) != same {
			c.violation("c12-merge-key-not-injective", fmt.Sprintf("blockMergeKey equal=%v but (partition, key set) equal=%v", ka == kb, same), desc)
		}
		c.count([]string{"C12"}, term, true, desc)
		c.dist("g_key", fmt.Sprintf("equal=%v", ka == kb))
	}
	// confusable pairs: moving bytes between the partition and the first key
	conf := [][2]bs.DataBlockMetadata{
		{{PartitionID: "ab"}, {PartitionID: "a", MinMaxIndexes: map[string]bs.MinMaxIndex{"b": {}}}},
		{{PartitionID: "a", MinMaxIndexes: map[string]bs.MinMaxIndex{"b": {}, "c": {}}}, {PartitionID: "a", MinMaxIndexes: map[string]bs.MinMaxIndex{"bc": {}}}},
		{{PartitionID: "", MinMaxIndexes: map[string]bs.MinMaxIndex{"": {}}}, {PartitionID: ""}},
		{{PartitionID: "\x01a"}, {PartitionID: "", MinMaxIndexes: map[string]bs.MinMaxIndex{"a": {}}}},
		{{PartitionID: "", MinMaxIndexes: map[string]bs.MinMaxIndex{"a": {}, "b": {}}}, {PartitionID: "", MinMaxIndexes: map[string]bs.MinMaxIndex{"b": {}, "a": {}}}},
		{{PartitionID: strings.Repeat("x", 128)}, {PartitionID: strings.Repeat("x", 128), MinMaxIndexes: map[string]bs.MinMaxIndex{}}},
		{{PartitionID: strings.Repeat("x", 1000)}, {PartitionID: strings.Repeat("x", 999)}},
	}
	for _, p := range conf {
		add(p[0], p[1])
	}
	n := c.pick(250, 6000)
	for i := 0; i < n; i++ {
		a := genMeta()
		b := genMeta()
		if c.chance(0.35) { // same partition, maybe same keys
			b.PartitionID = a.PartitionID
			if c.chance(0.5) {
				b.MinMaxIndexes = map[string]bs.MinMaxIndex{}
				for k := range a.MinMaxIndexes {
					b.MinMaxIndexes[k] = bs.MinMaxIndex{Min: 1, Max: 2}
				}
			}
		}
		add(a, b)
	}
}

// ---------------------------------------------------------------- queries

type gQuery struct {
	name string
	q    *bs.Query
	sat  func(r *gRow) bool // the bloom + regex part, evaluated independently on the original row
	pre  bool
}

func gRowTokens(v any) []string {
	s, ok := v.(string)
	if !ok {
		return nil
	}
	return strings.Fields(strings.ToLower(s))
}

func gHasToken(v any, t string) bool {
	for _, x := range gRowTokens(v) {
		if x == t {
			return true
		}
	}
	return false
}

func gSatField(f string) func(*gRow) bool {
	return func(r *gRow) bool { _, ok := r.row[f]; return ok }
}
func gSatToken(t string) func(*gRow) bool {
	return func(r *gRow) bool {
		for _, v := range r.row {
			if gHasToken(v, t) {
				return true
			}
		}
		return false
	}
}
func gSatFieldToken(f, t string) func(*gRow) bool {
	return func(r *gRow) bool { return gHasToken(r.row[f], t) }
}
func gSatRegex(f, pat string) func(*gRow) bool {
	re := regexp.MustCompile(pat)
	return func(r *gRow) bool {
		s, ok := r.row[f].(string)
		return ok && re.MatchString(s)
	}
}

func gBloomQ(e bs.BloomExpression) *bs.BloomQuery { return &bs.BloomQuery{Expression: &e} }
func gRegexQ(e bs.RegexExpression) *bs.RegexQuery { return &bs.RegexQuery{Expression: &e} }

func (c *Ctx) gGenQueries(pop *gPop, snap *gSnap) []gQuery {
	var qs []gQuery
	add := func(name string, bq *bs.BloomQuery, rq *bs.RegexQuery, sat func(*gRow) bool) {
		qs = append(qs, gQuery{name: name, q: &bs.Query{Bloom: bq, Regex: rq}, sat: sat})
	}
	all := func(*gRow) bool { return true }
	add("all", nil, nil, all)
	add("field n", gBloomQ(bs.Field("n")), nil, gSatField("n"))
	add("field m", gBloomQ(bs.Field("m")), nil, gSatField("m"))
	w := gWords[c.intn(len(gWords))]
	add("token "+w, gBloomQ(bs.Token(w)), nil, gSatToken(w))
	k := fmt.Sprintf("k%d", c.intn(4))
	add("fieldtoken k "+k, gBloomQ(bs.FieldToken("k", k)), nil, gSatFieldToken("k", k))
	// unique tokens: a row of a copied block is only found if the rebuilt file-level filter has its entries
	tags := make([]int, 0, len(pop.rows))
	for t := range snap.tagCounts() {
		tags = append(tags, t)
	}
	sort.Ints(tags)
	for i := 0; i < 6 && len(tags) > 0; i++ {
		u := fmt.Sprintf("u%d", tags[c.intn(len(tags))])
		add("token "+u, gBloomQ(bs.Token(u)), nil, gSatToken(u))
		if i%2 == 0 {
			add("fieldtoken u "+u, gBloomQ(bs.FieldToken("u", u)), nil, gSatFieldToken("u", u))
		}
	}
	w2 := gWords[c.intn(len(gWords))]
	sm, st := gSatField("m"), gSatToken(w2)
	add("and(field m, token "+w2+")", gBloomQ(bs.And(bs.Field("m"), bs.Token(w2))), nil, func(r *gRow) bool { return sm(r) && st(r) })
	if len(tags) > 0 {
		u := fmt.Sprintf("u%d", tags[c.intn(len(tags))])
		su, sk := gSatToken(u), gSatFieldToken("k", "k3")
		add("or(token "+u+", fieldtoken k k3)", gBloomQ(bs.Or(bs.Token(u), bs.FieldToken("k", "k3"))), nil, func(r *gRow) bool { return su(r) || sk(r) })
	}
	pat := []string{"^al", "ta$", "mm", "^omega omega$", "a b|a d"}[c.intn(5)]
	add("regex w "+pat, nil, gRegexQ(bs.FieldRegex("w", pat)), gSatRegex("w", pat))
	sr := gSatRegex("w", pat)
	add("regex w "+pat+" and field n", gBloomQ(bs.Field("n")), gRegexQ(bs.FieldRegex("w", pat)), func(r *gRow) bool { return sr(r) && gSatField("n")(r) })

	// the same with prefilters
	base := append([]gQuery(nil), qs...)
	pres := []bs.PrefilterExpression{}
	for i := 0; i < 2; i++ {
		pres = append(pres, bs.Partition(bs.PartitionEquals(gParts[c.intn(pop.nParts)])))
	}
	lo := int64(c.intn(160) - 90)
	pres = append(pres, bs.MinMax("n", bs.NumericBetween(lo, lo+int64(c.intn(40)))))
	pres = append(pres, bs.MinMax("m", bs.NumericGreaterThan(int64(c.intn(100)-50))))
	pres = append(pres, bs.PrefilterOr(bs.Partition(bs.PartitionEquals(gParts[0])), bs.MinMax("n", bs.NumericLessThanEqual(int64(c.intn(60)-30)))))
	pres = append(pres, bs.PrefilterAnd(bs.Partition(bs.PartitionNotEquals(gParts[0])), bs.MinMax("m", bs.NumericNotEquals(int64(c.intn(20))))))
	for i, pe := range pres {
		b := base[c.intn(len(base))]
		if i == 0 {
			b = base[0]
		}
		e := pe
		qs = append(qs, gQuery{name: fmt.Sprintf("pre#%d + %s", i, b.name), q: &bs.Query{Bloom: b.q.Bloom, Regex: b.q.Regex, Prefilter: &bs.QueryPrefilter{Expression: &e}}, sat: b.sat, pre: true})
	}
	return qs
}

func gRunQuery(eng *bs.BloomSearchEngine, q *bs.Query) (map[int]int, error) {
	res, err := eng.Query(context.Background(), q)
	if err != nil {
		return nil, err
	}
	defer res.Close()
	got := map[int]int{}
	for res.Next() {
		t, ok := res.Row()["tag"].(float64)
		if !ok {
			return nil, fmt.Errorf("row without tag: %v", res.Row())
		}
		got[int(t)]++
	}
	return got, res.Err()
}

func gCountsSubset(a, b map[int]int) bool {
	for k, v := range a {
		if b[k] < v {
			return false
		}
	}
	return true
}

// ---------------------------------------------------------------- one scenario

type gLimits struct{ rows, bytes, fileSize, files int }

// gChooseLimits picks merge limits that matter for this population: at, one below, or
// around sums of real block shapes and file sizes.
func (c *Ctx) gChooseLimits(s *gSnap) gLimits {
	l := gLimits{rows: 2 + c.intn(19), bytes: 150 + c.intn(3400), fileSize: 1 << 40, files: 2 + c.intn(9)}
	// pairs of same-key blocks
	type pair struct{ a, b *gBlock }
	var pairs []pair
	for i, a := range s.blocks {
		for _, b := range s.blocks[i+1:] {
			if a.meta.PartitionID == b.meta.PartitionID && gSameKeySet(a.meta.MinMaxIndexes, b.meta.MinMaxIndexes) {
				pairs = append(pairs, pair{a, b})
			}
		}
	}
	if len(pairs) > 0 {
		p := pairs[c.intn(len(pairs))]
		switch c.intn(5) {
		case 0:
			l.rows = p.a.meta.Rows + p.b.meta.Rows
		case 1:
			l.rows = p.a.meta.Rows + p.b.meta.Rows - 1
		case 2:
			l.bytes = p.a.meta.UncompressedSize + p.b.meta.UncompressedSize
			l.rows = 4 + c.intn(40)
		case 3:
			l.bytes = p.a.meta.UncompressedSize + p.b.meta.UncompressedSize - 1
			l.rows = 4 + c.intn(40)
		}
	}
	if c.chance(0.25) {
		l.bytes = 1 << 30
	}
	if len(s.files) >= 2 {
		a, b := s.files[c.intn(len(s.files))], s.files[c.intn(len(s.files))]
		switch c.intn(6) {
		case 0:
			l.fileSize = a.totalSize() + b.totalSize()
		case 1:
			l.fileSize = a.totalSize() + b.totalSize() - 1
		case 2:
			l.fileSize = a.totalSize() + b.totalSize() + c.intn(a.totalSize()+1)
		case 3:
			l.fileSize = a.totalSize() // nobody can join a file of that size
		}
	}
	if l.rows < 1 {
		l.rows = 1
	}
	if l.bytes < 1 {
		l.bytes = 1
	}
	if l.fileSize < 1 {
		l.fileSize = 1
	}
	return l
}

func (l gLimits) engineConfig(c *Ctx) bs.BloomSearchEngineConfig {
	cfg := bs.DefaultBloomSearchEngineConfig()
	cfg.PartitionFunc = gPartitionFunc
	// the merging engine's own minmax configuration is irrelevant to merging (key sets belong to the
	// source blocks); it changes between restarts
	cfg.MinMaxIndexes = [][]string{{"n", "m"}, {"n", "m"}, {"n"}, {}}[c.intn(4)]
	if gScenarioTokenizer != nil {
		cfg.Tokenizer = gScenarioTokenizer
	}
	cfg.MaxRowGroupRows = l.rows
	cfg.MaxRowGroupBytes = l.bytes
	cfg.MaxFileSize = l.fileSize
	cfg.MaxFilesToMergePerOperation = l.files
	cfg.RowDataCompression = []bs.CompressionType{bs.CompressionNone, bs.CompressionSnappy, bs.CompressionZstd}[c.intn(3)]
	cfg.BloomFalsePositiveRate = []float64{0.001, 0.02, 0.2}[c.intn(3)]
	return cfg
}

func gMergeScenario(c *Ctx, sh11, sh12 *shard, scen int) {
	gScenarioTokenizer = nil
	if c.chance(0.5) {
		gScenarioTokenizer = fieldsKeepCase
	}
	c.dist("g_tokenizer", map[bool]string{true: "strings.Fields (substring views)", false: "default"}[gScenarioTokenizer != nil])
	meta := bs.NewMemoryMetaStore()
	store := newMemDataStore()
	pt := newGPtrTable()
	pop := gNewPop(c)
	nWriters := 2 + c.intn(4)
	for w := 0; w < nWriters; w++ {
		pop.writeFiles(c, meta, store, c.gGenWriterCfg(), 1+c.intn(3), 1+c.intn(7), 0.15)
	}
	rounds := 1 + c.intn(3)
	nextID := 1
	for round := 0; round < rounds; round++ {
		before, err := gSnapshot(meta, gMemOpener(store), pt, nextID)
		must(err)
		nextID += len(before.blocks) + 1
		lim := c.gChooseLimits(before)
		cfg := lim.engineConfig(c)
		lm := newGLogMeta(meta)
		eng, err := bs.NewBloomSearchEngine(cfg, lm, store)
		must(err)
		queries := c.gGenQueries(pop, before)
		qBefore := make([]map[int]int, len(queries))
		for i, q := range queries {
			got, err := gRunQuery(eng, q.q)
			if err != nil {
				c.violation("g-query-error", "query failed on healthy stores before the merge: "+err.Error(), q.name)
			}
			qBefore[i] = got
		}
		slot := len(lm.yields)
		nUpd := len(lm.updates)
		stats, mErr := eng.Merge(context.Background())
		if mErr != nil || stats == nil {
			c.violation("g-merge-error", fmt.Sprintf("Merge on healthy stores returned stats=%v err=%v", stats, mErr), nil)
			return
		}
		after, err := gSnapshot(meta, gMemOpener(store), pt, nextID)
		if err != nil {
			c.violation("c11-unreadable-after-merge", "a file referenced after the merge cannot be read back: "+err.Error(), nil)
			return
		}
		nextID += len(after.blocks) + 1
		yielded := lm.yields[slot]
		updates := lm.updates[nUpd:]
		desc := map[string]any{"kind": "merge", "scenario": scen, "round": round, "limits": fmt.Sprintf("%+v", lim), "files": len(before.files), "blocks": len(before.blocks), "rows": len(before.tagBlock)}
		gCheckMerge(c, sh11, sh12, pop, before, after, cfg, yielded, updates, stats, desc)

		// queries after
		if c.gWants("C11") {
			for i, q := range queries {
				got, err := gRunQuery(eng, q.q)
				if err != nil {
					c.violation("c11-query-error", "query failed after the merge: "+err.Error(), q.name)
					continue
				}
				qd := map[string]any{"scenario": scen, "round": round, "query": q.name, "before": fmt.Sprint(qBefore[i]), "after": fmt.Sprint(got), "limits": fmt.Sprintf("%+v", lim)}
				if !q.pre && !sameCounts(got, qBefore[i]) {
					c.violation("c11-query-changed", "a query without prefilter returns a different multiset after the merge: "+q.name, qd)
				}
				if q.pre && !gCountsSubset(qBefore[i], got) {
					c.violation("c11-query-lost-rows", "a query with prefilter lost rows in the merge: "+q.name, qd)
				}
				for t := range got {
					if r := pop.rows[t]; r == nil || !q.sat(r) {
						c.violation("c11-query-unmatched-row", fmt.Sprintf("row %d returned by %s does not match its bloom/regex expression", t, q.name), qd)
					}
				}
				c.count([]string{"C11"}, fmt.Sprintf("q|%d|%d|%s|%v|%v", scen, round, q.name, qBefore[i], got), len(got) > 0 && len(updates) > 0 && len(updates[0].Writes) > 0, nil)
				c.dist("g_query", fmt.Sprintf("pre=%v hit=%v", q.pre, len(got) > 0))
			}
		}
		// more files before the next round
		if round+1 < rounds {
			pop.writeFiles(c, meta, store, c.gGenWriterCfg(), 1+c.intn(3), 1+c.intn(6), 0.1)
		}
	}
}

// gCheckMerge reconstructs what one committed Merge did, checks C11/C12 on it and emits the case.
func gCheckMerge(c *Ctx, sh11, sh12 *shard, pop *gPop, before, after *gSnap, cfg bs.BloomSearchEngineConfig,
	yielded []string, updates []gUpdateCall, stats *bs.MergeStats, desc map[string]any) {
	if len(updates) > 1 {
		c.violation("g-two-updates", fmt.Sprintf("one Merge issued %d MetaStore.Update calls", len(updates)), desc)
		return
	}
	var u gUpdateCall
	if len(updates) == 1 {
		u = updates[0]
	}
	tie := before.sortKeyTie()
	desc["tie"] = tie
	desc["groups"] = len(u.Writes)
	desc["deletes"] = len(u.Deletes)

	// --- reconstruct groups
	type obsBlock struct {
		b    *gBlock
		srcs []*gBlock
	}
	type obsGroup struct {
		out    *gFile
		files  []string
		blocks []obsBlock
	}
	var groups []obsGroup
	deleted := map[string]bool{}
	for _, d := range u.Deletes {
		deleted[d] = true
	}
	claimed := map[string]int{}
	for i, w := range u.Writes {
		out := after.byPtr[w]
		if out == nil {
			c.violation("c13-output-unreferenced", "an output written by Update is not referenced afterwards: "+w, desc)
			return
		}
		g := obsGroup{out: out}
		srcFiles := map[string]bool{}
		for _, ob := range out.blocks {
			o := obsBlock{b: ob}
			seen := map[int]bool{}
			for _, t := range ob.tags {
				sb := before.tagBlock[t]
				if sb == nil {
					c.violation("c11-row-from-nowhere", fmt.Sprintf("output row %d was not stored before the merge", t), desc)
					return
				}
				if !seen[sb.id] {
					seen[sb.id] = true
					o.srcs = append(o.srcs, sb)
				}
				srcFiles[sb.file.ptr] = true
			}
			g.blocks = append(g.blocks, o)
		}
		for _, d := range u.Deletes {
			if srcFiles[d] {
				g.files = append(g.files, d)
				claimed[d]++
			}
		}
		for f := range srcFiles {
			if !deleted[f] {
				c.violation("c11-source-kept", "rows were merged out of a file that was not deleted: "+f, desc)
			}
		}
		_ = i
		groups = append(groups, g)
	}
	for _, d := range u.Deletes {
		if claimed[d] != 1 {
			c.violation("c12-delete-not-grouped", fmt.Sprintf("deleted file %s belongs to %d outputs", d, claimed[d]), desc)
		}
	}

	// --- C11 directly on the implementation
	if c.gWants("C11") {
		bc, ac := before.tagCounts(), after.tagCounts()
		if !sameCounts(bc, ac) {
			c.violation("c11-rows-changed", fmt.Sprintf("stored row multiset changed: %d tags before, %d after", len(bc), len(ac)), desc)
		}
		for _, b := range after.blocks {
			for i, t := range b.tags {
				r := pop.rows[t]
				sb := before.tagBlock[t]
				if r == nil || sb == nil {
					continue
				}
				for j, t2 := range sb.tags {
					if t2 == t && !bytes.Equal(sb.rows[j], b.rows[i]) {
						c.violation("c11-row-bytes-changed", fmt.Sprintf("row %d changed: %q -> %q", t, sb.rows[j], b.rows[i]), desc)
					}
				}
				if b.meta.PartitionID != r.part {
					c.violation("c11-row-partition", fmt.Sprintf("row %d of partition %q sits in a block of partition %q", t, r.part, b.meta.PartitionID), desc)
				}
				for k, v := range r.vals {
					idx, ok := b.meta.MinMaxIndexes[k]
					if !ok || idx.Min > v[0] || idx.Max < v[1] {
						c.violation("c11-row-not-covered", fmt.Sprintf("row %d: %s in [%d,%d] not covered by block range %v (present=%v)", t, k, v[0], v[1], idx, ok), desc)
					}
				}
			}
			if b.meta.Rows != len(b.tags) || b.meta.UncompressedSize != b.dataLen {
				c.violation("c11-untruthful-metadata", fmt.Sprintf("block metadata Rows=%d UncompressedSize=%d, stored %d rows / %d bytes", b.meta.Rows, b.meta.UncompressedSize, len(b.tags), b.dataLen), desc)
			}
		}
	}

	// --- C12 directly on the implementation
	combined, copied := 0, 0
	for _, g := range groups {
		for _, ob := range g.blocks {
			if len(ob.srcs) < 2 {
				copied++
				continue
			}
			combined++
			if !c.gWants("C12") {
				continue
			}
			if len(ob.b.tags) > cfg.MaxRowGroupRows || ob.b.dataLen > cfg.MaxRowGroupBytes {
				c.violation("c12-block-over-limit", fmt.Sprintf("combined block holds %d rows / %d bytes, limits %d / %d", len(ob.b.tags), ob.b.dataLen, cfg.MaxRowGroupRows, cfg.MaxRowGroupBytes), desc)
			}
			for _, s := range ob.srcs[1:] {
				if s.meta.PartitionID != ob.srcs[0].meta.PartitionID || !gSameKeySet(s.meta.MinMaxIndexes, ob.srcs[0].meta.MinMaxIndexes) {
					c.violation("c12-mixed-block", fmt.Sprintf("combined block mixes partition/key set: %q %v with %q %v", s.meta.PartitionID, sortedKeys(s.meta.MinMaxIndexes), ob.srcs[0].meta.PartitionID, sortedKeys(ob.srcs[0].meta.MinMaxIndexes)), desc)
				}
			}
		}
	}
	if c.gWants("C12") {
		if len(u.Deletes) > cfg.MaxFilesToMergePerOperation {
			c.violation("c12-too-many-files", fmt.Sprintf("one Merge removed %d files, limit %d", len(u.Deletes), cfg.MaxFilesToMergePerOperation), desc)
		}
		for _, g := range groups {
			total := 0
			for _, f := range g.files {
				total += before.byPtr[f].totalSize()
			}
			if total > cfg.MaxFileSize {
				c.violation("c12-group-over-file-size", fmt.Sprintf("files merged into one output total %d bytes, MaxFileSize %d", total, cfg.MaxFileSize), desc)
			}
		}
	}
	maxSrcs, splitKeys := 0, 0
	for _, g := range groups {
		perKey := map[string]int{}
		for _, ob := range g.blocks {
			maxSrcs = max(maxSrcs, len(ob.srcs))
			perKey[bs.VerifBlockMergeKey(&ob.srcs[0].meta)]++
		}
		for _, n := range perKey {
			if n > 1 {
				splitKeys++ // same-key blocks that the limits kept apart
			}
		}
	}
	c.dist("g_max_sources_per_block", fmt.Sprint(min(maxSrcs, 6)))
	c.dist("g_keys_split_by_limits", fmt.Sprint(min(splitKeys, 4)))
	c.dist("g_groups", fmt.Sprint(len(groups)))
	c.dist("g_blocks", fmt.Sprintf("combined=%d", min(combined, 5)))
	c.dist("g_blocks_copied", fmt.Sprint(min(copied, 6)))
	c.dist("g_tie", fmt.Sprint(tie))
	ungrouped := len(before.files) - len(u.Deletes)
	c.dist("g_ungrouped_files", fmt.Sprint(min(ungrouped, 6)))

	// --- the case
	files := make([]string, 0, len(yielded))
	for _, p := range yielded {
		f := before.byPtr[p]
		if f == nil {
			c.mismatch("g-yield-unknown", "the iterator yielded a file the snapshot does not know: "+p, desc)
			return
		}
		files = append(files, gFileCoq(f, pop, true))
	}
	ogs := make([]string, len(groups))
	for i, g := range groups {
		fz := make([]int64, len(g.files))
		for j, f := range g.files {
			fz[j] = gPt64(before, f)
		}
		obl := make([]string, len(g.blocks))
		for j, ob := range g.blocks {
			srcs := make([]int, len(ob.srcs))
			for k, s := range ob.srcs {
				srcs[k] = s.id
			}
			obl[j] = fmt.Sprintf("(OB %s %s %d %d %s %d %s)", coqS(ob.b.meta.PartitionID), coqMM(ob.b.meta.MinMaxIndexes), ob.b.meta.Rows, ob.b.meta.UncompressedSize, gCoqInts(ob.b.tags), ob.b.dataLen, gCoqInts(srcs))
		}
		ogs[i] = fmt.Sprintf("(OG %s %s %s)", gCoqZs(fz), coqZ(g.out.z), coqList(obl))
	}
	term := fmt.Sprintf("GMerge %s %s %s %s (%d, %d, %d, %d) %s", gCoqCfg(cfg), coqList(files), coqBool(tie), coqList(ogs),
		stats.FilesProcessed, stats.RowGroupsProcessed, stats.RowsProcessed, stats.BytesProcessed, gCoqZs(after.ptrs()))
	nontrivial := len(groups) > 0
	var props []string
	if sh11 != nil {
		sh11.add(c, term, desc)
		props = append(props, "C11")
	}
	if sh12 != nil {
		sh12.add(c, term, desc)
		props = append(props, "C12")
	}
	c.count(props, term, nontrivial, desc)
}

func gPt64(s *gSnap, ptr string) int64 {
	if f := s.byPtr[ptr]; f != nil {
		return f.z
	}
	return -1
}
