package main

// Coq term printers for case files. Every value the model consumes is printed
// through these, so the encoding lives in one place.

import (
	"encoding/hex"
	"fmt"
	"math"
	"math/big"
	"strings"
)

func coqZ(z int64) string {
	if z < 0 {
		return fmt.Sprintf("(%d)", z)
	}
	return fmt.Sprintf("%d", z)
}

func coqBigZ(z *big.Int) string {
	if z.Sign() < 0 {
		return "(" + z.String() + ")"
	}
	return z.String()
}

func coqN(n uint64) string { return fmt.Sprintf("%d%%N", n) }

func coqNat(n int) string { return fmt.Sprintf("%d%%nat", n) }

func coqBool(b bool) string {
	if b {
		return "true"
	}
	return "false"
}

// coqStr prints a byte string as (h "hex").
func coqStr(b []byte) string { return `(h "` + hex.EncodeToString(b) + `")` }

func coqS(s string) string { return coqStr([]byte(s)) }

func coqList(items []string) string { return "[" + strings.Join(items, "; ") + "]" }

func coqStrList(ss []string) string {
	items := make([]string, len(ss))
	for i, s := range ss {
		items[i] = coqS(s)
	}
	return coqList(items)
}

func coqOpt(present bool, v string) string {
	if !present {
		return "None"
	}
	return "(Some " + v + ")"
}

func coqPair(a, b string) string { return "(" + a + ", " + b + ")" }

// coqFloat prints a float64 as the model's fl: exact mantissa/exponent.
func coqFloat(f float64) string {
	switch {
	case math.IsNaN(f):
		return "FNaN"
	case math.IsInf(f, 1):
		return "(FInf false)"
	case math.IsInf(f, -1):
		return "(FInf true)"
	case f == 0:
		return "(FFin 0 0)"
	}
	fr, exp := math.Frexp(f) // f = fr * 2^exp, 0.5 <= |fr| < 1
	m := int64(fr * (1 << 53)) // exact: 53-bit mantissa
	return fmt.Sprintf("(FFin %s %s)", coqZ(m), coqZ(int64(exp-53)))
}

// caseFile accumulates one cases_<n>.v file.
type caseFile struct {
	header string
	items  []string
}
