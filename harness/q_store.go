package main

// Instrumented DataStore for family Q: wraps memDataStore, numbers the handles
// in the order OpenFile succeeded, emits st.open.ok / st.open.fail into the hook
// event log, and watches every handle: concurrent use by two goroutines, use
// after Close, number of Close calls, and a gauge of in-progress reads.

import (
	"context"
	"fmt"
	"io"
	"sync"
	"sync/atomic"

	bs "github.com/danthegoodman1/bloomsearch"
)

type qStore struct {
	*memDataStore
	mu        sync.Mutex
	handles   []*qHandle // ordinal = index
	inReads   atomic.Int64
	maxReads  atomic.Int64
	problems  []string
	readDelay func(h *qHandle) // invoked inside a Read, while the gauge counts it
	emit      bool             // write st.open.* events into the hook log
	// readHook, when set, runs inside every Read (while the gauge counts it) with the stream position the
	// read starts at; a non-nil error is what the Read returns. It may block (a request in flight).
	readHook func(h *qHandle, off int64, n int) error
	// honourCtx: the store behaves like a remote client: OpenFile and Read fail with the error of the
	// context OpenFile was given once that context is done.
	honourCtx bool
	// corrupt, when set, is asked after every successful Read (start position, bytes read); true flips a bit
	// of what was read: the store returns damaged bytes without an error
	corrupt func(h *qHandle, off int64, n int) bool
}

type qHandle struct {
	s       *qStore
	ord     int
	pointer string
	inner   io.ReadSeekCloser
	ctx     context.Context // what OpenFile was given
	pos     atomic.Int64    // stream position (a handle is used by one goroutine at a time)
	openGid int64
	inUse   atomic.Int64 // goroutines currently inside Read/Seek/Close
	closes  atomic.Int64
	reads   atomic.Int64
}

func newQStore() *qStore {
	return &qStore{memDataStore: newMemDataStore(), emit: true}
}

func (s *qStore) problem(format string, args ...any) {
	s.mu.Lock()
	s.problems = append(s.problems, fmt.Sprintf(format, args...))
	s.mu.Unlock()
}

func (s *qStore) OpenFile(ctx context.Context, pointer []byte) (io.ReadSeekCloser, error) {
	var inner io.ReadSeekCloser
	var err error
	if s.honourCtx && ctx.Err() != nil {
		err = fmt.Errorf("store request abandoned: %w", ctx.Err())
	} else {
		inner, err = s.memDataStore.OpenFile(ctx, pointer)
	}
	if err != nil {
		if s.emit {
			bs.VerifEmit("st.open.fail", 0, 0, string(pointer))
		}
		return nil, err
	}
	s.mu.Lock()
	h := &qHandle{s: s, ord: len(s.handles), pointer: string(pointer), inner: inner, ctx: ctx, openGid: curGoroutineID()}
	s.handles = append(s.handles, h)
	emit := s.emit
	if emit {
		// inside the lock: the ordinal order is the log order of st.open.ok
		bs.VerifEmit("st.open.ok", 0, int64(h.ord), string(pointer))
	}
	s.mu.Unlock()
	return h, nil
}

func (h *qHandle) enter(what string) {
	if n := h.inUse.Add(1); n > 1 {
		h.s.problem("handle %d (%s): %s while another goroutine is using it", h.ord, h.pointer, what)
	}
	if h.closes.Load() > 0 {
		h.s.problem("handle %d (%s): %s after Close", h.ord, h.pointer, what)
	}
}

func (h *qHandle) Read(p []byte) (int, error) {
	h.enter("Read")
	defer h.inUse.Add(-1)
	n := h.s.inReads.Add(1)
	for {
		m := h.s.maxReads.Load()
		if n <= m || h.s.maxReads.CompareAndSwap(m, n) {
			break
		}
	}
	defer h.s.inReads.Add(-1)
	h.reads.Add(1)
	if f := h.s.readDelay; f != nil {
		f(h)
	}
	if f := h.s.readHook; f != nil {
		if err := f(h, h.pos.Load(), len(p)); err != nil {
			return 0, err
		}
	}
	if h.s.honourCtx && h.ctx.Err() != nil {
		return 0, fmt.Errorf("store read abandoned: %w", h.ctx.Err())
	}
	off := h.pos.Load()
	n2, err := h.inner.Read(p)
	h.pos.Add(int64(n2))
	if f := h.s.corrupt; f != nil && n2 > 0 && f(h, off, n2) {
		p[n2/2] ^= 0x10
	}
	return n2, err
}

func (h *qHandle) Seek(off int64, whence int) (int64, error) {
	h.enter("Seek")
	defer h.inUse.Add(-1)
	n, err := h.inner.Seek(off, whence)
	if err == nil {
		h.pos.Store(n)
	}
	return n, err
}

func (h *qHandle) Close() error {
	if n := h.inUse.Add(1); n > 1 {
		h.s.problem("handle %d (%s): Close while another goroutine is using it", h.ord, h.pointer)
	}
	defer h.inUse.Add(-1)
	if n := h.closes.Add(1); n > 1 {
		h.s.problem("handle %d (%s): closed %d times", h.ord, h.pointer, n)
	}
	return h.inner.Close()
}

// closeOrdinals lists one entry per Close call, by handle ordinal.
func (s *qStore) closeOrdinals() []int {
	s.mu.Lock()
	defer s.mu.Unlock()
	var out []int
	for _, h := range s.handles {
		for i := int64(0); i < h.closes.Load(); i++ {
			out = append(out, h.ord)
		}
	}
	return out
}

func (s *qStore) opened() int {
	s.mu.Lock()
	defer s.mu.Unlock()
	return len(s.handles)
}

func (s *qStore) takeProblems() []string {
	s.mu.Lock()
	defer s.mu.Unlock()
	p := s.problems
	s.problems = nil
	return p
}

func qCoqNatList(xs []int) string {
	items := make([]string, len(xs))
	for i, x := range xs {
		items[i] = coqNat(x)
	}
	return coqList(items)
}
