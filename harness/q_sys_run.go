package main

// System-level correspondence for family Q, part 2: running real queries under a plan
// (cancel / Close landing at an event or a pause point, slow and stalled consumers, store and
// iterator failures, several concurrent queries) and checking the implementation directly.

import (
	"context"
	"errors"
	"fmt"
	"runtime"
	"strings"
	"sync/atomic"
	"time"

	bs "github.com/danthegoodman1/bloomsearch"
)

type sysQPlan struct {
	sq       sysQuery
	mode     string // drain | slow | stall | cancelAt | closeAt | cancelPause | closePause | cancelBefore | closeBefore | cancelIter | cancelAfter
	at       int    // global event index for cancelAt / closeAt
	point    string // pause point for cancelPause / closePause
	stallAt  int    // rows after which a stalled consumer stops
	after    string // what ends a stall: resume | cancel | close
	twoClose bool   // a second goroutine calls Close as well
}

type sysQRun struct {
	idx      int
	plan     sysQPlan
	ctx      context.Context
	cancel   context.CancelFunc
	r        *bs.Results
	qid      int64
	consumer *actor
	closers  []*actor
	closeSig chan struct{}
	resume   chan struct{}

	returned   []int64
	nextFalse  bool // Next returned false
	stickyOK   bool // and false again
	cancelled  atomic.Bool
	closeAsked atomic.Bool
	queryErr   error
}

type sysScenario struct {
	c       *Ctx
	w       *sysWorld
	log     *qLog
	pz      *pauser
	runs    []*sysQRun
	plan    string
	faults  string
	iterAt  int
	mainGid int64
}

const sysTimeout = 30 * time.Second

func (c *Ctx) genQPlan(i, nq int, evGuess int) sysQPlan {
	p := sysQPlan{sq: c.genSysQuery()}
	modes := []string{"drain", "drain", "slow", "cancelAt", "cancelAt", "closeAt", "closeAt", "cancelPause", "closePause", "cancelBefore", "closeBefore", "cancelIter", "cancelAfter", "stall"}
	p.mode = modes[c.intn(len(modes))]
	p.at = c.intn(evGuess + 1)
	p.point = []string{"res.next.wait", "res.next.wait", "res.deliver.block", "res.term.waited", "res.close.waited"}[c.intn(5)]
	p.stallAt = c.intn(40)
	p.after = []string{"resume", "cancel", "close"}[c.intn(3)]
	p.twoClose = c.chance(0.3)
	return p
}

func (p sysQPlan) String() string {
	s := p.sq.name + "/" + p.mode
	switch p.mode {
	case "cancelAt", "closeAt":
		s += fmt.Sprintf("@%d", p.at)
	case "cancelPause", "closePause":
		s += "@" + p.point
	case "stall":
		s += fmt.Sprintf("@%d->%s", p.stallAt, p.after)
	}
	if p.twoClose {
		s += "+close2"
	}
	return s
}

// doCancel cancels query run q's caller context, bracketing the call in the log. inSink: we are
// inside the hook sink (the hook mutex is held), so the events are appended directly.
func (sc *sysScenario) doCancel(q *sysQRun, inSink bool) {
	if q.cancelled.Swap(true) {
		return
	}
	if inSink {
		sc.log.addLocked("caller.cancel.begin", int64(q.idx), 0)
		q.cancel()
		sc.log.addLocked("caller.cancel.end", int64(q.idx), 0)
		return
	}
	bs.VerifEmit("caller.cancel.begin", int64(q.idx), 0, "")
	q.cancel()
	bs.VerifEmit("caller.cancel.end", int64(q.idx), 0, "")
}

func (sc *sysScenario) askClose(q *sysQRun) {
	if q.closeAsked.Swap(true) {
		return
	}
	close(q.closeSig)
}

// runSysScenario executes one scenario and returns the Coq term (or "" when it had to be abandoned).
func runSysScenario(c *Ctx, fixed bool, kind string) (term string, desc map[string]any, key string, nontrivial bool) {
	maxQC := []int{1, 2, 3, 8}[c.intn(4)]
	w := buildWorld(c, maxQC)
	lifecycle := ""
	if kind == "lifecycle" {
		// queries do not depend on the ingest lifecycle: a never-started engine over the same stores, or the
		// engine after Stop, must answer exactly like the running one
		if c.chance(0.5) {
			lifecycle = "never-started"
			w.stop(c)
			eng2, err := bs.NewBloomSearchEngine(w.cfg, w.meta, w.store)
			must(err)
			w.eng = eng2
		} else {
			lifecycle = "stopped"
			w.stop(c)
		}
	} else {
		defer w.stop(c)
	}
	sc := &sysScenario{c: c, w: w, iterAt: -1, mainGid: curGoroutineID()}
	nq := 1
	if c.chance(0.45) {
		nq = 2 + c.intn(2)
	}
	// store faults and schedule perturbation
	openFail, readFail := map[int64]bool{}, map[int64]bool{}
	var faultDesc []string
	if c.chance(0.35) {
		for i := 0; i < 1+c.intn(2); i++ {
			n := int64(c.intn(8))
			openFail[n] = true
			faultDesc = append(faultDesc, fmt.Sprintf("open#%d", n))
		}
	}
	if c.chance(0.35) {
		for i := 0; i < 1+c.intn(3); i++ {
			n := int64(c.intn(40))
			readFail[n] = true
			faultDesc = append(faultDesc, fmt.Sprintf("read#%d", n))
		}
	}
	if c.chance(0.2) {
		sc.iterAt = c.intn(len(w.files) + 1)
		faultDesc = append(faultDesc, fmt.Sprintf("iter@%d", sc.iterAt))
	}
	var openCtr, readCtr, delayCtr atomic.Int64
	var injected atomic.Int64
	w.store.fault = func(kind string, nth int, pointer string) error {
		switch kind {
		case "OpenFile":
			if openFail[openCtr.Add(1)-1] {
				injected.Add(1)
				return errInjected
			}
		case "Read":
			if readFail[readCtr.Add(1)-1] {
				injected.Add(1)
				return errInjected
			}
		}
		return nil
	}
	delays := make([]time.Duration, 64)
	if c.chance(0.6) {
		for i := range delays {
			if c.chance(0.3) {
				delays[i] = time.Duration(c.intn(200)) * time.Microsecond
			}
		}
	}
	w.store.onCall = func(kind, pointer string) {
		if kind == "OpenFile" || kind == "Read" {
			if d := delays[delayCtr.Add(1)%int64(len(delays))]; d > 0 {
				time.Sleep(d)
			}
		}
	}
	sc.faults = strings.Join(faultDesc, ",")
	w.meta.mu.Lock()
	w.meta.failAt = sc.iterAt
	w.meta.mu.Unlock()

	evGuess := 60 * (1 + len(w.files))
	var plans []string
	for i := 0; i < nq; i++ {
		p := c.genQPlan(i, nq, evGuess)
		if kind == "starve" {
			if i == 0 {
				p.mode, p.stallAt = "stall", c.intn(5)
			} else {
				p.mode = "drain"
			}
		}
		if kind == "d7" {
			p.mode, p.point = "cancelPause", "res.next.wait"
			p.twoClose = false
		}
		if kind == "lifecycle" && c.chance(0.6) {
			p.mode = "drain"
		}
		if p.mode == "cancelIter" {
			if nq > 1 || sc.iterAt >= 0 {
				p.mode = "cancelAt"
			}
		}
		q := &sysQRun{idx: i, plan: p, closeSig: make(chan struct{}), resume: make(chan struct{})}
		q.consumer = newActor()
		q.closers = []*actor{newActor()}
		if p.twoClose {
			q.closers = append(q.closers, newActor())
		}
		sc.runs = append(sc.runs, q)
		plans = append(plans, p.String())
	}
	sc.plan = strings.Join(plans, " | ")
	if kind != "random" {
		sc.plan = kind + lifecycle + ": " + sc.plan
	}

	// MetaStore pause (cancel during iteration)
	var iterQ *sysQRun
	for _, q := range sc.runs {
		if q.plan.mode == "cancelIter" {
			iterQ = q
			w.meta.mu.Lock()
			w.meta.pauseAt = c.intn(len(w.files) + 1)
			w.meta.paused = make(chan struct{}, 1)
			w.meta.release = make(chan struct{})
			w.meta.mu.Unlock()
		}
	}

	baseline := runtime.NumGoroutine()
	sc.log = installLog()
	sc.pz = installPauser()
	defer removeLog()

	// actions landing at a global event index
	sc.log.onEvent = func(l *qLog, e qEvent) {
		for _, q := range sc.runs {
			if q.r == nil {
				continue
			}
			switch q.plan.mode {
			case "cancelAt":
				if e.Seq >= q.plan.at {
					sc.doCancel(q, true)
				}
			case "closeAt":
				if e.Seq >= q.plan.at {
					sc.askClose(q)
				}
			}
		}
	}
	// actions landing at a pause point (first goroutine of that query parking there)
	pauseDone := make(chan struct{})
	var pauseStop atomic.Bool
	sc.pz.setHold(func(point string, id int64) bool {
		for _, q := range sc.runs {
			if q.qid == id && (q.plan.mode == "cancelPause" || q.plan.mode == "closePause") && q.plan.point == point &&
				!q.cancelled.Load() && !q.closeAsked.Load() {
				return true
			}
		}
		return false
	})
	go func() {
		defer close(pauseDone)
		for !pauseStop.Load() {
			select {
			case g := <-sc.pz.notify:
				for _, q := range sc.runs {
					if q.qid != g.id {
						continue
					}
					if q.plan.mode == "cancelPause" {
						sc.doCancel(q, false)
						if kind == "d7" {
							// let the pipeline wind down and close the channels before the consumer goes on
							waitUntil(func() bool { return q.r == nil || q.r.VerifWorkersDone() }, 5*time.Second)
						}
					} else {
						sc.askClose(q)
						time.Sleep(200 * time.Microsecond)
					}
				}
				sc.pz.releaseAll()
				// re-arm the hold function (releaseAll clears it); further parks are not held
			case <-time.After(500 * time.Microsecond):
			}
		}
	}()

	// ---- launch
	for _, q := range sc.runs {
		q := q
		q.ctx, q.cancel = context.WithCancel(context.Background())
		if q.plan.mode == "cancelBefore" {
			sc.doCancel(q, false)
		}
		r, err := w.eng.Query(q.ctx, q.plan.sq.q)
		if err != nil {
			c.violation("q-query-setup", "Query returned an error for a valid query: "+err.Error(), map[string]any{"plan": sc.plan})
			q.queryErr = err
			continue
		}
		q.r = r
		q.qid = r.VerifID()
		if q.plan.mode == "closeBefore" {
			sc.askClose(q)
		}
		for _, a := range q.closers {
			a := a
			a.start(func() {
				<-q.closeSig
				if err := q.r.Close(); err != nil {
					c.violation("q-close-nonnil", "Close returned a non-nil error: "+err.Error(), map[string]any{"plan": sc.plan})
				}
			})
		}
		q.consumer.start(func() {
			if q.plan.mode == "closeBefore" {
				time.Sleep(300 * time.Microsecond)
			}
			n := 0
			if q.plan.mode == "stall" && q.plan.stallAt == 0 {
				<-q.resume
			}
			for q.r.Next() {
				q.returned = append(q.returned, qRowID(q.r.Row()))
				n++
				switch q.plan.mode {
				case "slow":
					if n%7 == 0 {
						time.Sleep(150 * time.Microsecond)
					}
				case "stall":
					if n == q.plan.stallAt {
						<-q.resume
					}
				}
			}
			q.nextFalse = true
			q.stickyOK = !q.r.Next() && q.r.Row() == nil
		})
	}
	if iterQ != nil && iterQ.r != nil {
		select {
		case <-w.meta.paused:
		case <-time.After(2 * time.Second):
		}
		sc.doCancel(iterQ, false)
	}

	hang := false
	waitConsumer := func(q *sysQRun) {
		if q.r == nil {
			return
		}
		if !q.consumer.settle(sysTimeout) {
			hang = true
			c.violation("q-next-hang", fmt.Sprintf("query %d: Next did not come to an end within %v", q.idx, sysTimeout), map[string]any{"plan": sc.plan, "world": w.describe()})
		}
	}
	// first the queries that are not stalled: they must finish although the others are stalled
	for _, q := range sc.runs {
		if q.plan.mode != "stall" {
			if q.plan.mode == "cancelAfter" {
				waitConsumer(q)
				sc.doCancel(q, false)
			}
			waitConsumer(q)
		}
	}
	for _, q := range sc.runs {
		if q.plan.mode == "stall" && q.r != nil {
			switch q.plan.after {
			case "cancel":
				sc.doCancel(q, false)
			case "close":
				sc.askClose(q)
			}
			close(q.resume)
			waitConsumer(q)
		}
	}
	pauseStop.Store(true)
	<-pauseDone
	sc.pz.releaseAll()
	if hang {
		for _, q := range sc.runs {
			if q.cancel != nil {
				q.cancel()
			}
			sc.askClose(q)
		}
		time.Sleep(50 * time.Millisecond)
		return "", nil, "", false
	}
	// closers: everyone who was never asked is asked now (Close after completion)
	type finalObs struct {
		err, err2 terr
		stats     bs.QueryStats
	}
	finals := make([]finalObs, len(sc.runs))
	for i, q := range sc.runs {
		if q.r == nil {
			continue
		}
		finals[i].err = classifyEngineErr(q.r.Err())
		finals[i].stats = q.r.Stats()
		sc.askClose(q)
		for _, a := range q.closers {
			if !a.settle(sysTimeout) {
				c.violation("q-close-hang", fmt.Sprintf("query %d: Close did not return", q.idx), map[string]any{"plan": sc.plan})
				return "", nil, "", false
			}
		}
		if err := q.r.Close(); err != nil {
			c.violation("q-close-nonnil", "Close returned a non-nil error: "+err.Error(), map[string]any{"plan": sc.plan})
		}
		finals[i].err2 = classifyEngineErr(q.r.Err())
		if st2 := q.r.Stats(); len(st2.BlockStats) != len(finals[i].stats.BlockStats) || st2.RowsMatched != finals[i].stats.RowsMatched {
			c.violation("q-stats-moved", fmt.Sprintf("query %d: Stats changed after Next returned false", q.idx), map[string]any{"plan": sc.plan})
		}
		q.cancel()
	}
	for _, q := range sc.runs {
		q.consumer.stop()
		for _, a := range q.closers {
			a.stop()
		}
	}
	nActors := 0
	for _, q := range sc.runs {
		nActors += 1 + len(q.closers)
	}

	// ---- direct checks on the implementation
	info := map[string]any{"plan": sc.plan, "faults": sc.faults, "world": w.describe()}
	if n := w.eng.VerifQuerySemaphoreLen(); n != 0 {
		c.violation("q-sem-leak", fmt.Sprintf("query semaphore holds %d slots after every query ended", n), info)
	}
	if n := w.meta.active.Load(); n != 0 {
		c.violation("q-iter-open", fmt.Sprintf("%d MetaStore iterations have not returned after every query ended", n), info)
	}
	for _, p := range w.store.takeProblems() {
		c.violation("q-handle", "DataStore handle misuse: "+p, info)
	}
	opened, closes := w.store.opened(), w.store.closeOrdinals()
	if len(closes) != opened {
		c.violation("q-handle-leak", fmt.Sprintf("%d handles opened, %d Close calls", opened, len(closes)), info)
	}
	if m := w.store.maxReads.Load(); m > int64(maxQC) {
		c.violation("q-read-gauge", fmt.Sprintf("%d DataStore reads in progress at once, MaxQueryConcurrency = %d", m, maxQC), info)
	}
	if !waitUntil(func() bool { return runtime.NumGoroutine() <= baseline-nActors }, 5*time.Second) {
		c.violation("q-goroutines", fmt.Sprintf("goroutines did not settle: %d before the queries, %d after (actors stopped: %d)", baseline, runtime.NumGoroutine(), nActors), info)
	}
	for i, q := range sc.runs {
		if q.r == nil {
			continue
		}
		f := finals[i]
		if !q.stickyOK {
			c.violation("q-sticky", fmt.Sprintf("query %d: Next returned true (or Row non-nil) after it had returned false", q.idx), info)
		}
		asked := q.plan.mode == "closeAt" || q.plan.mode == "closePause" || q.plan.mode == "closeBefore" || (q.plan.mode == "stall" && q.plan.after == "close")
		if !q.cancelled.Load() && !asked && injected.Load() == 0 && sc.iterAt < 0 && f.err.kind != "nil" {
			c.violation("q-err-spurious", fmt.Sprintf("query %d: Err = %s although nothing failed and nobody cancelled", q.idx, f.err.text), info)
		}
		if f.err.kind == "other" {
			c.violation("q-err-shape", fmt.Sprintf("query %d: Err is neither nil, the ctx error, nor a join of recorded failures: %s", q.idx, f.err.text), info)
		}
		if f.err.kind == "cancel" && !q.cancelled.Load() {
			c.violation("q-err-cancel", fmt.Sprintf("query %d: Err reports cancellation but the caller never cancelled", q.idx), info)
		}
		if q.plan.mode == "cancelBefore" && !asked && f.err.kind != "cancel" {
			c.violation("q-err-cancel-missed", fmt.Sprintf("query %d: context cancelled before Query, Err = %s", q.idx, f.err.kind), info)
		}
		c.dist("sys_err", f.err.kind)
		// C23 directly on Stats()
		{
			type bk struct {
				p   string
				off int
			}
			seen := map[bk]bs.BlockStats{}
			var rowsSum, bytesSum int64
			nSkipped := 0
			for _, b := range f.stats.BlockStats {
				k := bk{string(b.FilePointer), b.BlockOffset}
				if _, dup := seen[k]; dup {
					c.violation("q-stats-dup", fmt.Sprintf("query %d: block %s@%d listed twice in BlockStats", q.idx, k.p, k.off), info)
				}
				seen[k] = b
				if b.BloomFilterSkipped {
					nSkipped++
					if b.RowsProcessed != 0 || b.BytesProcessed != 0 {
						c.violation("q-stats-skipped", fmt.Sprintf("query %d: skipped block %s@%d reports %d rows / %d bytes", q.idx, k.p, k.off, b.RowsProcessed, b.BytesProcessed), info)
					}
				}
				rowsSum += b.RowsProcessed
				bytesSum += b.BytesProcessed
			}
			if f.stats.BlocksSkipped != nSkipped || f.stats.BlocksProcessed != len(f.stats.BlockStats)-nSkipped || f.stats.RowsScanned != rowsSum || f.stats.BytesScanned != bytesSum {
				c.violation("q-stats-totals", fmt.Sprintf("query %d: Stats totals are not the per-block sums", q.idx), info)
			}
			rowBlock := map[int64]bk{}
			for fi := range w.files {
				sf := &w.files[fi]
				blocks := w.queryBlocks(sf, q.plan.sq)
				n := 0
				for _, b := range blocks {
					if _, ok := seen[bk{sf.pointer, b.meta.RowDataOffset}]; ok {
						n++
					}
					for _, r := range b.rows {
						rowBlock[r.id] = bk{sf.pointer, b.meta.RowDataOffset}
					}
				}
				if !q.cancelled.Load() && !asked && n != 0 && n != len(blocks) {
					c.violation("q-stats-partial-file", fmt.Sprintf("query %d was not terminated early but Stats lists %d of the %d prefilter-surviving blocks of file %s", q.idx, n, len(blocks), sf.pointer), info)
				}
			}
			for _, id := range q.returned {
				if b, ok := seen[rowBlock[id]]; !ok || b.BloomFilterSkipped {
					c.violation("q-stats-returned", fmt.Sprintf("query %d: row %d was returned but its block is not listed as processed", q.idx, id), info)
					break
				}
			}
			if !q.cancelled.Load() && !asked && f.err.kind == "nil" {
				for k, b := range seen {
					if !b.BloomFilterSkipped && b.RowsProcessed != b.TotalRows {
						c.violation("q-stats-rows", fmt.Sprintf("query %d completed cleanly but block %s@%d has RowsProcessed %d of %d", q.idx, k.p, k.off, b.RowsProcessed, b.TotalRows), info)
					}
				}
				if f.stats.RowsMatched != int64(len(q.returned)) {
					c.violation("q-rows-matched", fmt.Sprintf("query %d completed cleanly: RowsMatched %d, rows returned %d", q.idx, f.stats.RowsMatched, len(q.returned)), info)
				}
			}
		}
		if (q.plan.mode == "drain" || q.plan.mode == "slow") && injected.Load() == 0 && sc.iterAt < 0 && !q.cancelled.Load() {
			// undisturbed: exactly the matching rows of the blocks the prefilter keeps, each once
			want := map[int64]int{}
			for fi := range w.files {
				for _, b := range w.queryBlocks(&w.files[fi], q.plan.sq) {
					for _, r := range b.rows {
						if q.plan.sq.match(r) {
							want[r.id]++
						}
					}
				}
			}
			got := map[int64]int{}
			for _, id := range q.returned {
				got[id]++
			}
			same := len(got) == len(want)
			for k, v := range want {
				if got[k] != v {
					same = false
				}
			}
			if !same {
				c.violation("q-rows", fmt.Sprintf("query %d (%s): undisturbed query returned %d distinct rows, the stored matching rows are %d", q.idx, lifecycle, len(got), len(want)), info)
			}
			if f.stats.RowsMatched != int64(len(q.returned)) {
				c.violation("q-rows-matched", fmt.Sprintf("query %d: RowsMatched %d, rows returned %d", q.idx, f.stats.RowsMatched, len(q.returned)), info)
			}
		}
	}

	// ---- translate
	tr := newSysTranslator(sc)
	labels, bad := tr.translate()
	if bad != "" {
		c.mismatch("q-sys-log", "query event log cannot be translated: "+bad, info)
		return "", nil, "", false
	}
	var envs, obs []string
	totalReturned := 0
	for i, q := range sc.runs {
		if q.r == nil {
			return "", nil, "", false
		}
		envs = append(envs, fmt.Sprintf("(%s, %s)", w.coqEnv(q.plan.sq, tr.pulled[i], tr.fsErr[i], tr.fsEnded[i], tr.iterErr[i]), coqNat(tr.closerCount(i))))
		f := finals[i]
		rows := make([]string, len(q.returned))
		for k, id := range q.returned {
			rows[k] = coqZ(id)
		}
		totalReturned += len(q.returned)
		fileIdx := func(p []byte) int64 {
			if sf := w.byPtr[string(p)]; sf != nil {
				return sf.idx
			}
			return -1
		}
		nOpened, qCloses := tr.handlesOf(i)
		obs = append(obs, fmt.Sprintf("{| qo_err := %s; qo_err2 := %s; qo_stats := %s; qo_returned := %s; qo_false_seen := %s; qo_nopened := %s; qo_closes := %s |}",
			f.err.coq(), f.err2.coq(), coqSObs(f.stats, fileIdx), coqList(rows), coqBool(q.nextFalse && q.stickyOK), coqNat(nOpened), qCoqNatList(qCloses)))
	}
	term = fmt.Sprintf("QTrace {| tc_fx := %s; tc_cap := %s; tc_envs := %s; tc_labels := %s; tc_obs := %s; tc_sem_end := %s |}",
		coqBool(fixed), coqNat(maxQC), coqList(envs), coqList(labels), coqList(obs), coqNat(w.eng.VerifQuerySemaphoreLen()))
	desc = map[string]any{"kind": "trace", "plan": sc.plan, "faults": sc.faults, "world": w.describe(), "events": len(labels),
		"rows_returned": totalReturned, "injected_hit": injected.Load(), "max_reads": w.store.maxReads.Load(), "opened": opened}
	c.dist("sys_maxqc", fmt.Sprint(maxQC))
	c.dist("sys_queries", fmt.Sprint(nq))
	c.dist("sys_events", qBucket(len(labels)))
	for _, q := range sc.runs {
		c.dist("sys_mode", q.plan.mode)
	}
	c.rep.TracesValidated++
	return term, desc, sc.plan + "#" + sc.faults + "#" + w.describe(), len(labels) >= 30
}

func waitUntil(cond func() bool, timeout time.Duration) bool {
	deadline := time.Now().Add(timeout)
	for !cond() {
		if time.Now().After(deadline) {
			return false
		}
		time.Sleep(200 * time.Microsecond)
	}
	return true
}

// classifyEngineErr maps Err() of a real query: nil, the ctx error, or a join of engine-made
// failures (numbered 0.. in join order; each must wrap an injected fault).
func classifyEngineErr(err error) terr {
	if err == nil {
		return terr{kind: "nil"}
	}
	if errors.Is(err, context.Canceled) || errors.Is(err, context.DeadlineExceeded) {
		if strings.HasPrefix(err.Error(), "query canceled") {
			return terr{kind: "cancel", text: err.Error()}
		}
		return terr{kind: "other", text: err.Error()}
	}
	j, ok := err.(interface{ Unwrap() []error })
	if !ok {
		return terr{kind: "other", text: err.Error()}
	}
	var ids []int64
	for i, e := range j.Unwrap() {
		if !errors.Is(e, errInjected) {
			return terr{kind: "other", text: "joined error does not wrap an injected fault: " + e.Error()}
		}
		ids = append(ids, int64(i))
	}
	return terr{kind: "join", ids: ids, text: err.Error()}
}
