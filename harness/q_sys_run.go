package main

// System-level correspondence for family Q, part 2: running real queries under a plan
// (cancel / Close landing at an event or a pause point, slow and stalled consumers, store and
// iterator failures, several concurrent queries) and checking the implementation directly.

import (
	"context"
	"errors"
	"fmt"
	"runtime"
	"strings"
	"sync/atomic"
	"time"

	bs "github.com/danthegoodman1/bloomsearch"
)

type sysQPlan struct {
	sq       sysQuery
	mode     string // drain | slow | stall | cancelAt | closeAt | cancelPause | closePause | cancelBefore | closeBefore | cancelIter | cancelAfter | cancelLate | inRead | handoff
	at       int    // global event index for cancelAt / closeAt
	point    string // pause point for cancelPause / closePause
	stallAt  int    // rows after which a stalled consumer stops
	after    string // what ends a stall: resume | cancel | close
	twoClose bool   // a second goroutine calls Close as well
	ctxKind  string // the caller's context: std | cause | watch | gated (see q_ctx.go)
}

type sysQRun struct {
	idx    int
	plan   sysQPlan
	ctx    context.Context
	cancel func()
	// propagate lets a gated caller context's cancellation reach the query's internal context;
	// holdProp: only the end of the scenario does that
	propagate func()
	holdProp  bool
	r         *bs.Results
	qid       int64
	consumer  *actor
	closers   []*actor
	closeSig  chan struct{}
	resume    chan struct{}

	returned   []int64
	nextFalse  bool // Next returned false
	stickyOK   bool // and false again
	cancelled  atomic.Bool
	cancelDone atomic.Bool // the cancel call has returned
	closeAsked atomic.Bool
	closeEarly atomic.Bool // a Close call returned while the pipeline had not wound down
	queryErr   error
	// read by the consumer around the Next call that returned false
	cancelBeforeFinal bool // the caller's cancel had returned before that call began
	closeAtFalse      bool // somebody had been asked to Close when it returned
	lateCancel        bool // cancelLate: the cancel was issued after the pipeline had finished by itself
}

type sysScenario struct {
	c           *Ctx
	w           *sysWorld
	log         *qLog
	pz          *pauser
	runs        []*sysQRun
	plan        string
	faults      string
	iterAt      int
	mainGid     int64
	propDelayUs int
}

const sysTimeout = 30 * time.Second

// qCorruptActive: the running scenario returns damaged row data from one read (see runSysScenario)
var qCorruptActive atomic.Bool

// qHandoffSeq rotates the endings of the hand-off scenarios
var qHandoffSeq int

// qHangSeen: a query of this run did not come to an end; the scenarios that exist to provoke that are not repeated
var qHangSeen bool

// qSaturateSeq rotates how a saturated query is ended, qInReadSeq how a query with a read in flight is
var qSaturateSeq, qInReadSeq int

func (c *Ctx) genQPlan(i, nq int, evGuess int) sysQPlan {
	p := sysQPlan{sq: c.genSysQuery()}
	modes := []string{"drain", "drain", "slow", "cancelAt", "cancelAt", "closeAt", "closeAt", "cancelPause", "closePause", "cancelBefore", "closeBefore", "cancelIter", "cancelAfter", "stall", "cancelLate"}
	p.mode = modes[c.intn(len(modes))]
	p.at = c.intn(evGuess + 1)
	p.point = []string{"res.next.wait", "res.next.wait", "res.deliver.block", "res.term.waited", "res.close.waited"}[c.intn(5)]
	p.stallAt = c.intn(40)
	p.after = []string{"resume", "cancel", "close"}[c.intn(3)]
	p.twoClose = c.chance(0.3)
	p.ctxKind = []string{"std", "std", "cause", "watch", "gated"}[c.intn(5)]
	return p
}

func (p sysQPlan) String() string {
	s := p.sq.name + "/" + p.mode
	switch p.mode {
	case "cancelAt", "closeAt":
		s += fmt.Sprintf("@%d", p.at)
	case "cancelPause", "closePause":
		s += "@" + p.point
	case "stall":
		s += fmt.Sprintf("@%d->%s", p.stallAt, p.after)
	case "inRead", "handoff":
		s += "->" + p.after
	}
	if p.ctxKind != "" && p.ctxKind != "std" {
		s += "+ctx:" + p.ctxKind
	}
	if p.twoClose {
		s += "+close2"
	}
	return s
}

// doCancel cancels query run q's caller context, bracketing the call in the log. inSink: we are
// inside the hook sink (the hook mutex is held), so the events are appended directly.
func (sc *sysScenario) doCancel(q *sysQRun, inSink bool) {
	if q.cancelled.Swap(true) {
		return
	}
	if inSink {
		sc.log.addLocked("caller.cancel.begin", int64(q.idx), 0)
		q.cancel()
		sc.log.addLocked("caller.cancel.end", int64(q.idx), 0)
	} else {
		bs.VerifEmit("caller.cancel.begin", int64(q.idx), 0, "")
		q.cancel()
		bs.VerifEmit("caller.cancel.end", int64(q.idx), 0, "")
	}
	q.cancelDone.Store(true)
	if q.plan.ctxKind == "gated" && !q.holdProp {
		// the cancellation reaches the query's internal context a little later
		d := time.Duration(sc.propDelayUs) * time.Microsecond
		go func() {
			time.Sleep(d)
			q.propagate()
		}()
	}
}

func (sc *sysScenario) askClose(q *sysQRun) {
	if q.closeAsked.Swap(true) {
		return
	}
	close(q.closeSig)
}

// runSysScenario executes one scenario and returns the Coq term (or "" when it had to be abandoned).
func runSysScenario(c *Ctx, fixed bool, kind string) (term string, desc map[string]any, key string, nontrivial bool) {
	maxQC := []int{1, 2, 3, 8}[c.intn(4)]
	shape := ""
	switch kind {
	case "saturate":
		maxQC, shape = 1+c.intn(2), "manyfiles"
	case "handoff":
		maxQC = 1 + c.intn(2)
	case "starve":
		// sometimes the stalled query has more candidate files than its pipeline absorbs: its file workers block
		// in dispatch as well (they must not hold a slot there either)
		if c.chance(0.35) && !qHangSeen {
			maxQC, shape = 1+c.intn(2), "manyfiles"
		}
	case "bigfilter":
		maxQC, shape = []int{1, 2, 8}[c.intn(3)], "bigfilter"
	}
	dedicated := kind == "saturate" || kind == "handoff" || kind == "bigfilter" || kind == "inread" || kind == "latecancel"
	w := buildWorld(c, maxQC, shape)
	lifecycle := ""
	if kind == "lifecycle" {
		// queries do not depend on the ingest lifecycle: a never-started engine over the same stores, or the
		// engine after Stop, must answer exactly like the running one
		if c.chance(0.5) {
			lifecycle = "never-started"
			w.stop(c)
			eng2, err := bs.NewBloomSearchEngine(w.cfg, w.meta, w.store)
			must(err)
			w.eng = eng2
		} else {
			lifecycle = "stopped"
			w.stop(c)
		}
	} else {
		defer w.stop(c)
	}
	sc := &sysScenario{c: c, w: w, iterAt: -1, mainGid: curGoroutineID(), propDelayUs: c.intn(400)}
	nq := 1
	if c.chance(0.45) && !dedicated {
		nq = 2 + c.intn(2)
	}
	if kind == "starve" && shape == "manyfiles" {
		nq = 2
	}
	// a MetaStore owes the engine no block order
	if kind == "random" || kind == "bigfilter" {
		if c.chance(0.5) {
			w.meta.mu.Lock()
			w.meta.order = []string{"reverse", "shuffle"}[c.intn(2)]
			w.meta.orderSeed = uint64(c.intn(1 << 30))
			w.meta.mu.Unlock()
		}
	}
	// store faults and schedule perturbation
	openFail, readFail := map[int64]bool{}, map[int64]bool{}
	var faultDesc []string
	// what an injected store failure looks like: a plain error, or one that wraps a context error of the
	// store's own making (a per-request timeout, a transport abort) while the query's context is live
	faultErr := errInjected
	switch c.intn(3) {
	case 1:
		faultErr = fmt.Errorf("object store request timed out: %w (%w)", context.DeadlineExceeded, errInjected)
		faultDesc = append(faultDesc, "err=deadline")
	case 2:
		faultErr = fmt.Errorf("body read aborted by transport: %w (%w)", context.Canceled, errInjected)
		faultDesc = append(faultDesc, "err=canceled")
	}
	if dedicated {
		// the dedicated scenarios bring their own disturbance
	} else if c.chance(0.35) {
		for i := 0; i < 1+c.intn(2); i++ {
			n := int64(c.intn(8))
			openFail[n] = true
			faultDesc = append(faultDesc, fmt.Sprintf("open#%d", n))
		}
	}
	if !dedicated && c.chance(0.35) {
		for i := 0; i < 1+c.intn(3); i++ {
			n := int64(c.intn(40))
			readFail[n] = true
			faultDesc = append(faultDesc, fmt.Sprintf("read#%d", n))
		}
	}
	// damaged row data: the k-th read that lies inside a block's row data comes back with a flipped bit and no
	// error; the block fails its checksum after the read succeeded (the handle is fine, the bytes are not)
	var injected atomic.Int64
	corruptAt := int64(-1)
	filterCorrupt := false // the damaged read lies in a block filter section (a parse failure of one block), not in row data
	if !dedicated && c.chance(0.3) {
		corruptAt = int64(c.intn(6))
		if c.chance(0.4) {
			filterCorrupt = true
			corruptAt = int64(c.intn(3))
			faultDesc = append(faultDesc, fmt.Sprintf("filter-bitflip#%d", corruptAt))
		} else {
			faultDesc = append(faultDesc, fmt.Sprintf("rowdata-bitflip#%d", corruptAt))
		}
	}
	var rowReadCtr atomic.Int64
	var filterHit atomic.Bool
	qCorruptActive.Store(corruptAt >= 0)
	w.store.corrupt = nil
	if corruptAt >= 0 {
		w.store.corrupt = func(h *qHandle, off int64, n int) bool {
			f := w.byPtr[h.pointer]
			if f == nil {
				return false
			}
			for i := range f.blocks {
				b := &f.blocks[i].meta
				if filterCorrupt {
					// a chunk read of the block filter region: the flipped byte (the middle of what was read) lies in
					// whichever section is there; the read itself succeeds
					if b.BloomFilterSize > 0 && off >= int64(b.BloomFilterOffset) && off < int64(b.BloomFilterOffset+b.BloomFilterSize) {
						if rowReadCtr.Add(1)-1 == corruptAt {
							filterHit.Store(true)
							return true
						}
						return false
					}
					continue
				}
				if b.HasRowDataHash && off >= int64(b.RowDataOffset) && off+int64(n) <= int64(b.RowDataOffset+b.RowDataSize) {
					if rowReadCtr.Add(1)-1 == corruptAt {
						injected.Add(1)
						return true
					}
					return false
				}
			}
			return false
		}
	}
	if !dedicated && c.chance(0.2) {
		sc.iterAt = c.intn(len(w.files) + 1)
		faultDesc = append(faultDesc, fmt.Sprintf("iter@%d", sc.iterAt))
	}
	var openCtr, readCtr, delayCtr atomic.Int64
	w.store.fault = func(kind string, nth int, pointer string) error {
		switch kind {
		case "OpenFile":
			if openFail[openCtr.Add(1)-1] {
				injected.Add(1)
				return faultErr
			}
		case "Read":
			if readFail[readCtr.Add(1)-1] {
				injected.Add(1)
				return faultErr
			}
		}
		return nil
	}
	delays := make([]time.Duration, 64)
	if c.chance(0.6) {
		for i := range delays {
			if c.chance(0.3) {
				delays[i] = time.Duration(c.intn(200)) * time.Microsecond
			}
		}
	}
	w.store.onCall = func(kind, pointer string) {
		if kind == "OpenFile" || kind == "Read" {
			if d := delays[delayCtr.Add(1)%int64(len(delays))]; d > 0 {
				time.Sleep(d)
			}
		}
	}
	w.meta.mu.Lock()
	w.meta.failAt = sc.iterAt
	w.meta.mu.Unlock()

	evGuess := 60 * (1 + len(w.files))
	var plans []string
	for i := 0; i < nq; i++ {
		p := c.genQPlan(i, nq, evGuess)
		if kind == "starve" {
			if i == 0 {
				p.mode, p.stallAt = "stall", c.intn(5)
				if shape == "manyfiles" {
					for p.sq.hasPre || p.sq.name != "field:tag" {
						p.sq = c.genSysQuery() // bloom conditions (the file workers take slots), every file survives
					}
				}
			} else {
				p.mode = "drain"
			}
		}
		if kind == "d7" {
			p.mode, p.point = "cancelPause", "res.next.wait"
			p.twoClose = false
		}
		if kind == "lifecycle" && c.chance(0.6) {
			p.mode = "drain"
		}
		switch kind {
		case "saturate":
			// a consumer that takes (next to) nothing, the pipeline backs up to the file stage, then the query is
			// ended from outside: every blocked send must give way
			p.mode, p.stallAt = "stall", c.intn(3)
			p.after = []string{"close", "close", "cancel", "close", "resume", "close"}[qSaturateSeq%6]
			qSaturateSeq++
			p.sq = c.genSysQuery()
			for p.sq.hasPre || strings.HasPrefix(p.sq.name, "token") || strings.HasPrefix(p.sq.name, "fieldtoken") {
				p.sq = c.genSysQuery() // every file must contribute rows: all / field:tag
			}
		case "latecancel":
			p.mode, p.ctxKind, p.twoClose = "cancelLate", "gated", false
		case "inread":
			p.mode = "inRead"
			p.after = []string{"close", "cancel", "cancelclose"}[qInReadSeq%3]
			qInReadSeq++
		case "handoff":
			p.mode, p.ctxKind = "handoff", "std"
			// closeheld: Close while the other queries keep every slot; the parked workers never get one
			p.after = []string{"cancel", "close", "closeheld", "closeheld"}[qHandoffSeq%4]
			qHandoffSeq++
			if p.after == "closeheld" && qHandoffSeq%8 < 4 {
				// without bloom conditions the file stage needs no slot: it dispatches, and it is the block workers
				// that park on the full semaphore (with conditions the file worker parks first and they stay idle)
				for !strings.HasPrefix(p.sq.name, "all") {
					p.sq = c.genSysQuery()
				}
			}
		case "bigfilter":
			p.mode = []string{"drain", "drain", "slow", "cancelAt", "closeAt"}[c.intn(5)]
			for p.sq.hasPre || (!strings.HasPrefix(p.sq.name, "token") && !strings.HasPrefix(p.sq.name, "fieldtoken") && !strings.HasPrefix(p.sq.name, "field:")) {
				p.sq = c.genSysQuery() // the block filter pass only runs for a query with bloom conditions
			}
		}
		if p.mode == "cancelIter" {
			if nq > 1 || sc.iterAt >= 0 {
				p.mode = "cancelAt"
			}
		}
		q := &sysQRun{idx: i, plan: p, closeSig: make(chan struct{}), resume: make(chan struct{})}
		q.holdProp = p.mode == "cancelLate"
		q.consumer = newActor()
		q.closers = []*actor{newActor()}
		if p.twoClose {
			q.closers = append(q.closers, newActor())
		}
		sc.runs = append(sc.runs, q)
		plans = append(plans, p.String())
	}
	sc.plan = strings.Join(plans, " | ")
	if kind != "random" {
		sc.plan = kind + lifecycle + ": " + sc.plan
	}

	// ---- the store as a remote client: requests fail with the error of the context OpenFile was given once
	// that context is done
	if kind == "inread" || (kind == "random" && c.chance(0.3)) {
		w.store.honourCtx = true
		faultDesc = append(faultDesc, "honourctx")
	}
	// inread: one read is a request in flight: it returns (with the context's error) only when the query's
	// context is done; the query is cancelled / closed while it is in flight
	readParked := make(chan *qHandle, 1)
	holdRead := make(chan struct{}) // cancelclose: the request in flight does not return before the harness says so
	if kind == "inread" {
		ignoreCtx := sc.runs[0].plan.after == "cancelclose"
		parkAt := int64([]int{0, 0, 1, 1, 2, 3, 5}[c.intn(7)])
		faultDesc = append(faultDesc, fmt.Sprintf("park-read#%d", parkAt))
		var hookCtr atomic.Int64
		w.store.readHook = func(h *qHandle, off int64, n int) error {
			if hookCtr.Add(1)-1 == parkAt {
				select {
				case readParked <- h:
				default:
				}
				if ignoreCtx {
					select {
					case <-holdRead:
					case <-time.After(10 * time.Second):
					}
				} else {
					select {
					case <-h.ctx.Done():
					case <-time.After(10 * time.Second):
					}
				}
			}
			return nil
		}
	}
	// bigfilter: an I/O failure on a read that starts at the filter section of one of the file's blocks: with a
	// region larger than the chunk cap that is a chunk read other than the first one
	if kind == "bigfilter" {
		sq := sc.runs[0].plan.sq
		f := &w.files[0]
		for i := range w.files {
			if len(w.files[i].blocks) > len(f.blocks) {
				f = &w.files[i]
			}
		}
		blocks := w.queryBlocks(f, sq)
		starts := qChunkStarts(blocks)
		c.dist("sys_bigfilter_chunks", fmt.Sprint(len(starts)))
		if len(blocks) > 0 && c.chance(0.9) {
			k := c.intn(len(blocks))
			if len(starts) > 1 && c.chance(0.85) {
				k = starts[1+c.intn(len(starts)-1)]
			}
			target := int64(blocks[k].meta.BloomFilterOffset)
			faultDesc = append(faultDesc, fmt.Sprintf("read@section-of-block-%d/%d", k, len(blocks)))
			w.store.readHook = func(h *qHandle, off int64, n int) error {
				if h.pointer == f.pointer && off == target {
					injected.Add(1)
					return faultErr
				}
				return nil
			}
		}
	}
	sc.faults = strings.Join(faultDesc, ",")

	// MetaStore pause (cancel during iteration)
	var iterQ *sysQRun
	for _, q := range sc.runs {
		if q.plan.mode == "cancelIter" {
			iterQ = q
			w.meta.mu.Lock()
			w.meta.pauseAt = c.intn(len(w.files) + 1)
			w.meta.paused = make(chan struct{}, 1)
			w.meta.release = make(chan struct{})
			w.meta.mu.Unlock()
		}
	}

	baseline := runtime.NumGoroutine()
	sc.log = installLog()
	sc.pz = installPauser()
	defer removeLog()

	// actions landing at a global event index
	sc.log.onEvent = func(l *qLog, e qEvent) {
		for _, q := range sc.runs {
			if q.r == nil {
				continue
			}
			switch q.plan.mode {
			case "cancelAt":
				if e.Seq >= q.plan.at {
					sc.doCancel(q, true)
				}
			case "closeAt":
				if e.Seq >= q.plan.at {
					sc.askClose(q)
				}
			}
		}
	}
	// actions landing at a pause point (first goroutine of that query parking there)
	pauseDone := make(chan struct{})
	var pauseStop atomic.Bool
	sc.pz.setHold(func(point string, id int64) bool {
		for _, q := range sc.runs {
			if q.qid == id && (q.plan.mode == "cancelPause" || q.plan.mode == "closePause") && q.plan.point == point &&
				!q.cancelled.Load() && !q.closeAsked.Load() {
				return true
			}
		}
		return false
	})
	go func() {
		defer close(pauseDone)
		for !pauseStop.Load() {
			select {
			case g := <-sc.pz.notify:
				for _, q := range sc.runs {
					if q.qid != g.id {
						continue
					}
					if q.plan.mode == "cancelPause" {
						sc.doCancel(q, false)
						if kind == "d7" {
							// let the pipeline wind down and close the channels before the consumer goes on
							waitUntil(func() bool { return q.r == nil || q.r.VerifWorkersDone() }, 5*time.Second)
						}
					} else {
						sc.askClose(q)
						time.Sleep(200 * time.Microsecond)
					}
				}
				sc.pz.releaseAll()
				// re-arm the hold function (releaseAll clears it); further parks are not held
			case <-time.After(500 * time.Microsecond):
			}
		}
	}()

	// handoff: the engine's whole query budget is taken (the harness stands in for other queries' workers),
	// so this query's workers park inside querySlot.acquire
	heldSlots := 0
	if kind == "handoff" {
		sem := w.eng.VerifQuerySemaphore()
		for heldSlots < cap(sem) {
			sem <- struct{}{}
			heldSlots++
		}
	}
	releaseHeld := func() {
		sem := w.eng.VerifQuerySemaphore()
		for ; heldSlots > 0; heldSlots-- {
			<-sem
		}
	}
	defer releaseHeld()

	// ---- launch
	for _, q := range sc.runs {
		q := q
		q.ctx, q.cancel, q.propagate = newQCallerCtx(q.plan.ctxKind)
		if q.plan.mode == "cancelBefore" {
			sc.doCancel(q, false)
		}
		r, err := w.eng.Query(q.ctx, q.plan.sq.q)
		if err != nil {
			c.violation("q-query-setup", "Query returned an error for a valid query: "+err.Error(), map[string]any{"plan": sc.plan})
			q.queryErr = err
			continue
		}
		q.r = r
		q.qid = r.VerifID()
		if q.plan.mode == "closeBefore" {
			sc.askClose(q)
		}
		for _, a := range q.closers {
			a := a
			a.start(func() {
				<-q.closeSig
				if err := q.r.Close(); err != nil {
					c.violation("q-close-nonnil", "Close returned a non-nil error: "+err.Error(), map[string]any{"plan": sc.plan})
				}
				if !q.r.VerifWorkersDone() {
					q.closeEarly.Store(true)
				}
			})
		}
		q.consumer.start(func() {
			if q.plan.mode == "closeBefore" {
				time.Sleep(300 * time.Microsecond)
			}
			n := 0
			if q.plan.mode == "stall" && q.plan.stallAt == 0 {
				<-q.resume
			}
			if q.plan.mode == "cancelLate" {
				// give the pipeline the chance to finish by itself behind a consumer that has not come yet
				waitUntil(q.r.VerifWorkersDone, 20*time.Millisecond)
			}
			for {
				if q.plan.mode == "cancelLate" && !q.cancelled.Load() && q.r.VerifWorkersDone() {
					// the pipeline is over, rows may still be buffered: the caller cancels now. The calls that
					// follow hand out what is buffered; the one that finds the channel closed must report the cancel.
					q.lateCancel = true
					sc.doCancel(q, false)
				}
				cancelledBefore := q.cancelDone.Load()
				if !q.r.Next() {
					q.cancelBeforeFinal = cancelledBefore
					q.closeAtFalse = q.closeAsked.Load()
					break
				}
				q.returned = append(q.returned, qRowID(q.r.Row()))
				n++
				switch q.plan.mode {
				case "slow":
					if n%7 == 0 {
						time.Sleep(150 * time.Microsecond)
					}
				case "stall":
					if n == q.plan.stallAt {
						<-q.resume
					}
				}
			}
			q.nextFalse = true
			q.stickyOK = !q.r.Next() && q.r.Row() == nil
		})
	}
	if iterQ != nil && iterQ.r != nil {
		select {
		case <-w.meta.paused:
		case <-time.After(2 * time.Second):
		}
		sc.doCancel(iterQ, false)
	}

	// logQuiet waits until the hook log has not grown for the given time (true) or the timeout passes
	logQuiet := func(quiet, timeout time.Duration) bool {
		deadline := time.Now().Add(timeout)
		last, since := sc.log.len(), time.Now()
		for time.Now().Before(deadline) {
			time.Sleep(200 * time.Microsecond)
			if n := sc.log.len(); n != last {
				last, since = n, time.Now()
			} else if time.Since(since) >= quiet {
				return true
			}
		}
		return false
	}
	lastEventOf := func(qid int64, prefix string) string {
		evs := sc.log.snapshot()
		for i := len(evs) - 1; i >= 0; i-- {
			if evs[i].A == qid && strings.HasPrefix(evs[i].Kind, prefix) && !qForeignEvent(evs[i].Kind) {
				return evs[i].Kind
			}
		}
		return ""
	}
	if kind == "inread" {
		q := sc.runs[0]
		deadline := time.Now().Add(10 * time.Second)
	waitPark:
		for q.r != nil && time.Now().Before(deadline) {
			select {
			case <-readParked:
				c.dist("sys_inread", "parked->"+q.plan.after)
				switch q.plan.after {
				case "cancel":
					sc.doCancel(q, false)
				case "close":
					sc.askClose(q)
				case "cancelclose":
					// the caller cancels and then closes without driving Next to false, while a worker is inside a
					// store request that takes its time: Close returns only once that worker is out
					sc.doCancel(q, false)
					sc.askClose(q)
					time.Sleep(3 * time.Millisecond)
					close(holdRead)
				}
				break waitPark
			default:
				if q.consumer.settle(200 * time.Microsecond) {
					c.dist("sys_inread", "never-parked")
					break waitPark
				}
			}
		}
	}
	if kind == "handoff" && sc.runs[0].r != nil {
		q := sc.runs[0]
		// wait until the query's workers have parked on the full semaphore
		waitUntil(func() bool { return lastEventOf(q.qid, "bw.take") != "" || lastEventOf(q.qid, "fw.take") != "" }, 2*time.Second)
		parked := logQuiet(3*time.Millisecond, 2*time.Second)
		c.dist("sys_handoff", fmt.Sprintf("quiet=%v->%s", parked, q.plan.after))
		// The slots are handed to the parked workers and the query ends right behind that, before the workers
		// run again: with one P a goroutine made runnable by the channel hand-off cannot run before this one yields.
		if q.plan.after == "closeheld" {
			// Close ends the query although nobody gives its parked workers a slot: it may wait for them, and
			// they wait for a slot or for the end of the query, whichever comes first
			q.closeAsked.Store(true)
			closed := make(chan error, 1)
			go func() { closed <- q.r.Close() }()
			var cerr error
			select {
			case cerr = <-closed:
			case <-time.After(sysTimeout):
				c.violation("q-close-hang", fmt.Sprintf("query %d: Close did not return within %v while its workers were parked waiting for a query slot that other queries hold", q.idx, sysTimeout),
					map[string]any{"plan": sc.plan, "world": w.describe()})
				releaseHeld()
				select {
				case cerr = <-closed:
				case <-time.After(sysTimeout):
				}
			}
			if cerr != nil {
				c.violation("q-close-nonnil", "Close returned a non-nil error: "+cerr.Error(), map[string]any{"plan": sc.plan})
			}
			releaseHeld()
			close(q.closeSig)
		}
		prev := runtime.GOMAXPROCS(1)
		if q.plan.after == "closeheld" {
		} else if q.plan.after == "cancel" {
			q.cancelled.Store(true)
			bs.VerifEmit("caller.cancel.begin", int64(q.idx), 0, "")
			releaseHeld()
			q.cancel()
			bs.VerifEmit("caller.cancel.end", int64(q.idx), 0, "")
			q.cancelDone.Store(true)
		} else {
			q.closeAsked.Store(true)
			releaseHeld()
			if err := q.r.Close(); err != nil {
				c.violation("q-close-nonnil", "Close returned a non-nil error: "+err.Error(), map[string]any{"plan": sc.plan})
			}
			close(q.closeSig)
		}
		runtime.GOMAXPROCS(prev)
	}

	hang := false
	waitConsumer := func(q *sysQRun) {
		if q.r == nil {
			return
		}
		if !q.consumer.settle(sysTimeout) {
			hang = true
			c.violation("q-next-hang", fmt.Sprintf("query %d: Next did not come to an end within %v", q.idx, sysTimeout), map[string]any{"plan": sc.plan, "world": w.describe()})
		}
	}
	// first the queries that are not stalled: they must finish although the others are stalled
	for _, q := range sc.runs {
		if q.plan.mode != "stall" {
			if q.plan.mode == "cancelAfter" {
				waitConsumer(q)
				sc.doCancel(q, false)
			}
			waitConsumer(q)
		}
	}
	for _, q := range sc.runs {
		if q.plan.mode == "stall" && q.r != nil {
			if kind == "saturate" {
				// the pipeline must be backed up to the file stage: its last event is the attempt to send a file job
				sat := waitUntil(func() bool {
					return lastEventOf(q.qid, "fs.") == "fs.job.try" && logQuiet(2*time.Millisecond, 50*time.Millisecond)
				}, 3*time.Second)
				c.dist("sys_saturated", fmt.Sprintf("%v->%s", sat, q.plan.after))
			}
			switch q.plan.after {
			case "cancel":
				sc.doCancel(q, false)
			case "close":
				sc.askClose(q)
			}
			close(q.resume)
			waitConsumer(q)
		}
	}
	pauseStop.Store(true)
	<-pauseDone
	sc.pz.releaseAll()
	if hang {
		qHangSeen = true
		for _, q := range sc.runs {
			if q.cancel != nil {
				q.cancel()
				q.propagate()
			}
			sc.askClose(q)
		}
		time.Sleep(50 * time.Millisecond)
		return "", nil, "", false
	}
	// closers: everyone who was never asked is asked now (Close after completion)
	type finalObs struct {
		err, err2 terr
		stats     bs.QueryStats
	}
	finals := make([]finalObs, len(sc.runs))
	askedEarly := make([]bool, len(sc.runs)) // somebody was asked to Close before the consumer was through
	for i, q := range sc.runs {
		if q.r == nil {
			continue
		}
		askedEarly[i] = q.closeAsked.Load()
		finals[i].err = classifyEngineErr(q.r.Err())
		finals[i].stats = q.r.Stats()
		sc.askClose(q)
		for _, a := range q.closers {
			if !a.settle(sysTimeout) {
				c.violation("q-close-hang", fmt.Sprintf("query %d: Close did not return", q.idx), map[string]any{"plan": sc.plan})
				qHangSeen = true
				q.cancel()
				q.propagate()
				return "", nil, "", false
			}
		}
		if err := q.r.Close(); err != nil {
			c.violation("q-close-nonnil", "Close returned a non-nil error: "+err.Error(), map[string]any{"plan": sc.plan})
		}
		finals[i].err2 = classifyEngineErr(q.r.Err())
		if st2 := q.r.Stats(); len(st2.BlockStats) != len(finals[i].stats.BlockStats) || st2.RowsMatched != finals[i].stats.RowsMatched {
			c.violation("q-stats-moved", fmt.Sprintf("query %d: Stats changed after Next returned false", q.idx), map[string]any{"plan": sc.plan})
		}
		q.cancel()
		q.propagate()
	}
	for _, q := range sc.runs {
		q.consumer.stop()
		for _, a := range q.closers {
			a.stop()
		}
	}
	nActors := 0
	for _, q := range sc.runs {
		nActors += 1 + len(q.closers)
	}

	// ---- direct checks on the implementation
	info := map[string]any{"plan": sc.plan, "faults": sc.faults, "world": w.describe()}
	if n := w.eng.VerifQuerySemaphoreLen(); n != 0 {
		c.violation("q-sem-leak", fmt.Sprintf("query semaphore holds %d slots after every query ended", n), info)
	}
	if n := w.meta.active.Load(); n != 0 {
		c.violation("q-iter-open", fmt.Sprintf("%d MetaStore iterations have not returned after every query ended", n), info)
	}
	for _, p := range w.store.takeProblems() {
		c.violation("q-handle", "DataStore handle misuse: "+p, info)
	}
	opened, closes := w.store.opened(), w.store.closeOrdinals()
	if len(closes) != opened {
		c.violation("q-handle-leak", fmt.Sprintf("%d handles opened, %d Close calls", opened, len(closes)), info)
	}
	if m := w.store.maxReads.Load(); m > int64(maxQC) {
		c.violation("q-read-gauge", fmt.Sprintf("%d DataStore reads in progress at once, MaxQueryConcurrency = %d", m, maxQC), info)
	}
	if !waitUntil(func() bool { return runtime.NumGoroutine() <= baseline-nActors }, 5*time.Second) {
		c.violation("q-goroutines", fmt.Sprintf("goroutines did not settle: %d before the queries, %d after (actors stopped: %d)", baseline, runtime.NumGoroutine(), nActors), info)
	}
	for i, q := range sc.runs {
		if q.r == nil {
			continue
		}
		f := finals[i]
		if q.closeEarly.Load() {
			c.violation("q-close-early", fmt.Sprintf("query %d: a Close call returned while the query's pipeline had not wound down (workers may still hold handles and slots)", q.idx), info)
		}
		if !q.stickyOK {
			c.violation("q-sticky", fmt.Sprintf("query %d: Next returned true (or Row non-nil) after it had returned false", q.idx), info)
		}
		asked := askedEarly[i]
		// C20: the caller's cancel had returned before the Next call that returned false began and nobody had been
		// asked to Close when it returned: only Next can have decided, and it must have reported the cancellation
		if fixed && q.cancelBeforeFinal && !q.closeAtFalse && f.err.kind != "cancel" {
			c.violation("q-err-cancel-missed", fmt.Sprintf("query %d: the caller's context (%s) was cancelled before the Next call that returned false began (pipeline already finished: %v), nobody called Close, yet Err = %s %s",
				q.idx, q.plan.ctxKind, q.lateCancel, f.err.kind, f.err.text), info)
		}
		// C20: nobody ended the query from outside, so its context was live whenever a store call failed: every
		// injected failure is a recorded failure and Err reports them all
		if nq == 1 && !q.cancelled.Load() && !asked && sc.iterAt < 0 && injected.Load() > 0 && !filterHit.Load() && (f.err.kind != "join" || int64(len(f.err.ids)) != injected.Load()) {
			c.violation("q-err-dropped", fmt.Sprintf("query %d: %d store calls failed (%s) while the query's context was live, Err = %s %s", q.idx, injected.Load(), sc.faults, f.err.kind, f.err.text), info)
		}
		if q.lateCancel {
			c.dist("sys_latecancel", fmt.Sprintf("%s/err=%s", q.plan.ctxKind, f.err.kind))
		}
		if !q.cancelled.Load() && !asked && injected.Load() == 0 && !filterHit.Load() && sc.iterAt < 0 && f.err.kind != "nil" {
			c.violation("q-err-spurious", fmt.Sprintf("query %d: Err = %s although nothing failed and nobody cancelled", q.idx, f.err.text), info)
		}
		if f.err.kind == "other" {
			c.violation("q-err-shape", fmt.Sprintf("query %d: Err is neither nil, the ctx error, nor a join of recorded failures: %s", q.idx, f.err.text), info)
		}
		if f.err.kind == "cancel" && !q.cancelled.Load() {
			c.violation("q-err-cancel", fmt.Sprintf("query %d: Err reports cancellation but the caller never cancelled", q.idx), info)
		}
		if q.plan.mode == "cancelBefore" && !asked && f.err.kind != "cancel" {
			c.violation("q-err-cancel-missed", fmt.Sprintf("query %d: context cancelled before Query, Err = %s", q.idx, f.err.kind), info)
		}
		c.dist("sys_err", f.err.kind)
		// C23 directly on Stats()
		{
			type bk struct {
				p   string
				off int
			}
			seen := map[bk]bs.BlockStats{}
			var rowsSum, bytesSum int64
			nSkipped := 0
			for _, b := range f.stats.BlockStats {
				k := bk{string(b.FilePointer), b.BlockOffset}
				if _, dup := seen[k]; dup {
					c.violation("q-stats-dup", fmt.Sprintf("query %d: block %s@%d listed twice in BlockStats", q.idx, k.p, k.off), info)
				}
				seen[k] = b
				if b.BloomFilterSkipped {
					nSkipped++
					if b.RowsProcessed != 0 || b.BytesProcessed != 0 {
						c.violation("q-stats-skipped", fmt.Sprintf("query %d: skipped block %s@%d reports %d rows / %d bytes", q.idx, k.p, k.off, b.RowsProcessed, b.BytesProcessed), info)
					}
				}
				rowsSum += b.RowsProcessed
				bytesSum += b.BytesProcessed
			}
			if f.stats.BlocksSkipped != nSkipped || f.stats.BlocksProcessed != len(f.stats.BlockStats)-nSkipped || f.stats.RowsScanned != rowsSum || f.stats.BytesScanned != bytesSum {
				c.violation("q-stats-totals", fmt.Sprintf("query %d: Stats totals are not the per-block sums", q.idx), info)
			}
			rowBlock := map[int64]bk{}
			for fi := range w.files {
				sf := &w.files[fi]
				blocks := w.queryBlocks(sf, q.plan.sq)
				n := 0
				for _, b := range blocks {
					if _, ok := seen[bk{sf.pointer, b.meta.RowDataOffset}]; ok {
						n++
					}
					for _, r := range b.rows {
						rowBlock[r.id] = bk{sf.pointer, b.meta.RowDataOffset}
					}
				}
				if !q.cancelled.Load() && !asked && n != 0 && n != len(blocks) {
					c.violation("q-stats-partial-file", fmt.Sprintf("query %d was not terminated early but Stats lists %d of the %d prefilter-surviving blocks of file %s", q.idx, n, len(blocks), sf.pointer), info)
				}
			}
			for _, id := range q.returned {
				if b, ok := seen[rowBlock[id]]; !ok || b.BloomFilterSkipped {
					c.violation("q-stats-returned", fmt.Sprintf("query %d: row %d was returned but its block is not listed as processed", q.idx, id), info)
					break
				}
			}
			if !q.cancelled.Load() && !asked && f.err.kind == "nil" {
				for k, b := range seen {
					if !b.BloomFilterSkipped && b.RowsProcessed != b.TotalRows {
						c.violation("q-stats-rows", fmt.Sprintf("query %d completed cleanly but block %s@%d has RowsProcessed %d of %d", q.idx, k.p, k.off, b.RowsProcessed, b.TotalRows), info)
					}
				}
				if f.stats.RowsMatched != int64(len(q.returned)) {
					c.violation("q-rows-matched", fmt.Sprintf("query %d completed cleanly: RowsMatched %d, rows returned %d", q.idx, f.stats.RowsMatched, len(q.returned)), info)
				}
			}
		}
		if (q.plan.mode == "drain" || q.plan.mode == "slow") && injected.Load() == 0 && !filterHit.Load() && sc.iterAt < 0 && !q.cancelled.Load() {
			// undisturbed: exactly the matching rows of the blocks the prefilter keeps, each once
			want := map[int64]int{}
			for fi := range w.files {
				for _, b := range w.queryBlocks(&w.files[fi], q.plan.sq) {
					for _, r := range b.rows {
						if q.plan.sq.match(r) {
							want[r.id]++
						}
					}
				}
			}
			got := map[int64]int{}
			for _, id := range q.returned {
				got[id]++
			}
			same := len(got) == len(want)
			for k, v := range want {
				if got[k] != v {
					same = false
				}
			}
			if !same {
				c.violation("q-rows", fmt.Sprintf("query %d (%s): undisturbed query returned %d distinct rows, the stored matching rows are %d", q.idx, lifecycle, len(got), len(want)), info)
			}
			if f.stats.RowsMatched != int64(len(q.returned)) {
				c.violation("q-rows-matched", fmt.Sprintf("query %d: RowsMatched %d, rows returned %d", q.idx, f.stats.RowsMatched, len(q.returned)), info)
			}
		}
	}

	// C21: afterwards the engine's whole query budget is available again: a further query over the same engine
	// runs to completion (at MaxQueryConcurrency = 1 a single lost slot would park it for ever)
	if kind == "handoff" || kind == "saturate" || kind == "inread" {
		bs.VerifSetSink(nil) // the log of the scenario is complete
		bs.VerifSetPause(nil)
		w.store.emit = false
		w.store.fault, w.store.onCall, w.store.readHook, w.store.honourCtx, w.store.corrupt = nil, nil, nil, false, nil
		w.meta.mu.Lock()
		w.meta.failAt, w.meta.pauseAt = -1, -1
		w.meta.mu.Unlock()
		total := 0
		for _, f := range w.files {
			for _, b := range f.blocks {
				total += len(b.rows)
			}
		}
		ctx2, cancel2 := context.WithCancel(context.Background())
		r2, err := w.eng.Query(ctx2, bs.NewQuery().Build())
		if err != nil {
			c.violation("q-query-setup", "follow-up Query returned an error: "+err.Error(), info)
		} else {
			got := make(chan int, 1)
			go func() {
				n := 0
				for r2.Next() {
					n++
				}
				got <- n
			}()
			select {
			case n := <-got:
				if n != total || r2.Err() != nil {
					c.violation("q-followup-rows", fmt.Sprintf("a query started after every other query had ended returned %d of %d rows, Err = %v", n, total, r2.Err()), info)
				}
			case <-time.After(10 * time.Second):
				c.violation("q-followup-hang", fmt.Sprintf("a query started after every other query had ended made no progress in 10 s (query semaphore length %d of %d): the engine's query budget was not returned",
					w.eng.VerifQuerySemaphoreLen(), maxQC), info)
				cancel2()
				select {
				case <-got:
				case <-time.After(5 * time.Second):
				}
			}
			r2.Close()
		}
		cancel2()
	}

	// ---- translate
	tr := newSysTranslator(sc)
	labels, bad := tr.translate()
	if bad != "" {
		c.mismatch("q-sys-log", "query event log cannot be translated: "+bad, info)
		return "", nil, "", false
	}
	var envs, obs []string
	totalReturned := 0
	for i, q := range sc.runs {
		if q.r == nil {
			return "", nil, "", false
		}
		envs = append(envs, fmt.Sprintf("(%s, %s)", w.coqEnv(q.plan.sq, tr.pulled[i], tr.fsErr[i], tr.fsEnded[i], tr.iterErr[i]), coqNat(tr.closerCount(i))))
		f := finals[i]
		rows := make([]string, len(q.returned))
		for k, id := range q.returned {
			rows[k] = coqZ(id)
		}
		totalReturned += len(q.returned)
		fileIdx := func(p []byte) int64 {
			if sf := w.byPtr[string(p)]; sf != nil {
				return sf.idx
			}
			return -1
		}
		nOpened, qCloses := tr.handlesOf(i)
		obs = append(obs, fmt.Sprintf("{| qo_err := %s; qo_err2 := %s; qo_stats := %s; qo_returned := %s; qo_false_seen := %s; qo_nopened := %s; qo_closes := %s |}",
			f.err.coq(), f.err2.coq(), coqSObs(f.stats, fileIdx), coqList(rows), coqBool(q.nextFalse && q.stickyOK), coqNat(nOpened), qCoqNatList(qCloses)))
	}
	term = fmt.Sprintf("QTrace {| tc_fx := %s; tc_cap := %s; tc_envs := %s; tc_labels := %s; tc_obs := %s; tc_sem_end := %s |}",
		coqBool(fixed), coqNat(maxQC), coqList(envs), coqList(labels), coqList(obs), coqNat(w.eng.VerifQuerySemaphoreLen()))
	desc = map[string]any{"kind": "trace", "plan": sc.plan, "faults": sc.faults, "world": w.describe(), "events": len(labels),
		"rows_returned": totalReturned, "injected_hit": injected.Load(), "max_reads": w.store.maxReads.Load(), "opened": opened}
	c.dist("sys_maxqc", fmt.Sprint(maxQC))
	c.dist("sys_queries", fmt.Sprint(nq))
	c.dist("sys_events", qBucket(len(labels)))
	for _, q := range sc.runs {
		c.dist("sys_mode", q.plan.mode)
	}
	c.rep.TracesValidated++
	return term, desc, sc.plan + "#" + sc.faults + "#" + w.describe(), len(labels) >= 30
}

// qChunkStarts: the indexes (into blocks, ascending row data offset) at which the block filter pass of a file
// has to read: the first block, then every block whose section the chunk in hand does not cover. A chunk
// starts at a block's section and extends over the following sections while they stay within the cap.
func qChunkStarts(blocks []sysBlock) []int {
	var starts []int
	var cs, ce int64 = -1, -1
	for i, b := range blocks {
		if b.meta.BloomFilterSize == 0 {
			continue
		}
		off, end := int64(b.meta.BloomFilterOffset), int64(b.meta.BloomFilterOffset+b.meta.BloomFilterSize)
		if cs >= 0 && off >= cs && end <= ce {
			continue
		}
		starts = append(starts, i)
		cs, ce = off, end
		for _, nb := range blocks[i+1:] {
			if nb.meta.BloomFilterSize == 0 {
				continue
			}
			ns, ne := int64(nb.meta.BloomFilterOffset), int64(nb.meta.BloomFilterOffset+nb.meta.BloomFilterSize)
			if ns < cs || ne-cs > bs.VerifBlockFilterChunkTarget {
				break
			}
			if ne > ce {
				ce = ne
			}
		}
	}
	return starts
}

func waitUntil(cond func() bool, timeout time.Duration) bool {
	deadline := time.Now().Add(timeout)
	for !cond() {
		if time.Now().After(deadline) {
			return false
		}
		time.Sleep(200 * time.Microsecond)
	}
	return true
}

// classifyEngineErr maps Err() of a real query: nil, the ctx error, or a join of engine-made
// failures (numbered 0.. in join order; each must wrap an injected fault).
func classifyEngineErr(err error) terr {
	if err == nil {
		return terr{kind: "nil"}
	}
	if strings.HasPrefix(err.Error(), "query canceled: ") {
		if errors.Is(err, context.Canceled) || errors.Is(err, context.DeadlineExceeded) {
			return terr{kind: "cancel", text: err.Error()}
		}
		return terr{kind: "other", text: err.Error()}
	}
	// (a recorded store failure may itself wrap a context error: that is a failure, not a cancellation)
	j, ok := err.(interface{ Unwrap() []error })
	if !ok {
		return terr{kind: "other", text: err.Error()}
	}
	var ids []int64
	for i, e := range j.Unwrap() {
		if !errors.Is(e, errInjected) && !(qCorruptActive.Load() && strings.Contains(e.Error(), "hash")) {
			return terr{kind: "other", text: "joined error does not wrap an injected fault: " + e.Error()}
		}
		ids = append(ids, int64(i))
	}
	return terr{kind: "join", ids: ids, text: err.Error()}
}
