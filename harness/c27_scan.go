package main

// C27, static side as seen by the harness: a second, independently written reading of the
// Go sources of package bloomsearch (go/parser only). Every function and method is reported
// with the external identifiers it references; the Coq runner compares this view with
// Generated/SilentGraph.v (what the translator emitted), and a reference to an output sink
// is reported here as a violation naming the function, so that a concrete offender is
// shown and not only a proof that stopped checking.

import (
	"bytes"
	"fmt"
	"go/ast"
	"go/parser"
	"go/printer"
	"go/token"
	"os"
	"path"
	"path/filepath"
	"regexp"
	"runtime/debug"
	"sort"
	"strconv"
	"strings"
)

type scanRef struct{ Pkg, Name string }

type scanFn struct {
	File string
	Name string
	Line int
	Refs []scanRef
}

func repoDir() string {
	dir := os.Getenv("VERIF_REPO")
	if dir == "" {
		dir = "/repo"
	}
	// the binary was built against a replace directive: it must be the same tree
	if bi, ok := debug.ReadBuildInfo(); ok {
		for _, d := range bi.Deps {
			if d.Path == "github.com/danthegoodman1/bloomsearch" && d.Replace != nil && d.Replace.Path != "" {
				a, _ := filepath.Abs(d.Replace.Path)
				b, _ := filepath.Abs(dir)
				if a != b {
					panic(fmt.Sprintf("c27: harness built against %s but VERIF_REPO is %s", a, b))
				}
			}
		}
	}
	return dir
}

var majorVersion = regexp.MustCompile(`^v[0-9]+$`)

func pkgNameOfPath(p string) string {
	b := path.Base(p)
	if majorVersion.MatchString(b) {
		b = path.Base(path.Dir(p))
	}
	return b
}

var scanDevicePaths = []string{"/dev/std", "/dev/fd", "/dev/tty", "/dev/console", "/dev/pts", "/proc/self/fd", "/proc/thread-self/fd"}

// scanRepo returns every function and method of the non-test files of package bloomsearch
// (all build-tag variants) with its external references, and the nil-logger branch of the
// constructor as a Coq gexpr term ("" when the shape is not `if v == nil { v = <expr> }`).
func scanRepo(dir string) (fns []scanFn, nilLogger string, nilLoggerText string) {
	fset := token.NewFileSet()
	entries, err := os.ReadDir(dir)
	must(err)
	type parsed struct {
		name string
		f    *ast.File
	}
	var files []parsed
	pkgLevel := map[string]bool{}
	for _, e := range entries {
		n := e.Name()
		if e.IsDir() || !strings.HasSuffix(n, ".go") || strings.HasSuffix(n, "_test.go") {
			continue
		}
		f, err := parser.ParseFile(fset, filepath.Join(dir, n), nil, 0)
		must(err)
		if f.Name.Name != "bloomsearch" {
			continue
		}
		files = append(files, parsed{n, f})
		for _, d := range f.Decls {
			switch x := d.(type) {
			case *ast.FuncDecl:
				if x.Recv == nil {
					pkgLevel[x.Name.Name] = true
				}
			case *ast.GenDecl:
				for _, s := range x.Specs {
					switch sp := s.(type) {
					case *ast.TypeSpec:
						pkgLevel[sp.Name.Name] = true
					case *ast.ValueSpec:
						for _, id := range sp.Names {
							pkgLevel[id.Name] = true
						}
					}
				}
			}
		}
	}
	for _, pf := range files {
		imports := map[string]string{}
		for _, imp := range pf.f.Imports {
			p, err := strconv.Unquote(imp.Path.Value)
			must(err)
			name := pkgNameOfPath(p)
			if imp.Name != nil {
				name = imp.Name.Name
			}
			imports[name] = p
		}
		qualifier := func(id *ast.Ident) (string, bool) {
			if id.Obj != nil || pkgLevel[id.Name] {
				return "", false
			}
			p, ok := imports[id.Name]
			return p, ok
		}
		var toG func(e ast.Expr) string
		toG = func(e ast.Expr) string {
			switch x := e.(type) {
			case *ast.ParenExpr:
				return toG(x.X)
			case *ast.Ident:
				return "GLocal " + coqStringLit(x.Name)
			case *ast.SelectorExpr:
				if id, ok := x.X.(*ast.Ident); ok {
					if p, ok := qualifier(id); ok {
						return fmt.Sprintf("GRef %s %s", coqStringLit(p), coqStringLit(x.Sel.Name))
					}
				}
				return fmt.Sprintf("GSel (%s) %s", toG(x.X), coqStringLit(x.Sel.Name))
			case *ast.CallExpr:
				args := make([]string, len(x.Args))
				for i, a := range x.Args {
					args[i] = toG(a)
				}
				return fmt.Sprintf("GCall (%s) [%s]", toG(x.Fun), strings.Join(args, "; "))
			}
			var b bytes.Buffer
			printer.Fprint(&b, fset, e)
			return "GOther " + coqStringLit(strings.Join(strings.Fields(b.String()), " "))
		}
		for _, d := range pf.f.Decls {
			fd, ok := d.(*ast.FuncDecl)
			if !ok {
				continue
			}
			name := fd.Name.Name
			if fd.Recv != nil && len(fd.Recv.List) > 0 {
				t := fd.Recv.List[0].Type
				for done := false; !done; {
					switch x := t.(type) {
					case *ast.StarExpr:
						t = x.X
					case *ast.ParenExpr:
						t = x.X
					case *ast.IndexExpr:
						t = x.X
					case *ast.IndexListExpr:
						t = x.X
					default:
						done = true
					}
				}
				if id, ok := t.(*ast.Ident); ok {
					name = id.Name + "." + name
				} else {
					name = "?." + name
				}
			}
			seen := map[scanRef]bool{}
			var walk func(n ast.Node) bool
			walk = func(n ast.Node) bool {
				switch x := n.(type) {
				case *ast.SelectorExpr:
					if id, ok := x.X.(*ast.Ident); ok {
						if p, ok := qualifier(id); ok {
							seen[scanRef{p, x.Sel.Name}] = true
						}
						return false
					}
					ast.Inspect(x.X, walk)
					return false
				case *ast.BasicLit:
					if x.Kind == token.STRING {
						if v, err := strconv.Unquote(x.Value); err == nil {
							for _, dev := range scanDevicePaths {
								if strings.Contains(v, dev) {
									seen[scanRef{"string", v}] = true
								}
							}
						}
					}
				case *ast.Ident:
					if (x.Name == "print" || x.Name == "println") && x.Obj == nil && !pkgLevel[x.Name] && imports[x.Name] == "" {
						seen[scanRef{"builtin", x.Name}] = true
					}
				}
				return true
			}
			ast.Inspect(fd, walk)
			fn := scanFn{File: pf.name, Name: name, Line: fset.Position(fd.Pos()).Line}
			for r := range seen {
				fn.Refs = append(fn.Refs, r)
			}
			sort.Slice(fn.Refs, func(i, j int) bool {
				if fn.Refs[i].Pkg != fn.Refs[j].Pkg {
					return fn.Refs[i].Pkg < fn.Refs[j].Pkg
				}
				return fn.Refs[i].Name < fn.Refs[j].Name
			})
			fns = append(fns, fn)

			if name == "NewBloomSearchEngine" && fd.Body != nil {
				for _, st := range fd.Body.List {
					ifs, ok := st.(*ast.IfStmt)
					if !ok || ifs.Init != nil || ifs.Else != nil {
						continue
					}
					be, ok := ifs.Cond.(*ast.BinaryExpr)
					if !ok || be.Op != token.EQL {
						continue
					}
					v, ok1 := be.X.(*ast.Ident)
					nl, ok2 := be.Y.(*ast.Ident)
					if !ok1 || !ok2 || nl.Name != "nil" || !strings.Contains(strings.ToLower(v.Name), "logger") {
						continue
					}
					for _, bst := range ifs.Body.List {
						if as, ok := bst.(*ast.AssignStmt); ok && len(as.Lhs) == 1 && len(as.Rhs) == 1 {
							if l, ok := as.Lhs[0].(*ast.Ident); ok && l.Name == v.Name {
								nilLogger = toG(as.Rhs[0])
								var b bytes.Buffer
								printer.Fprint(&b, fset, as.Rhs[0])
								nilLoggerText = b.String()
							}
						}
					}
				}
			}
		}
	}
	sort.Slice(fns, func(i, j int) bool {
		if fns[i].File != fns[j].File {
			return fns[i].File < fns[j].File
		}
		return fns[i].Name < fns[j].Name
	})
	return fns, nilLogger, nilLoggerText
}

// goIsSink: the harness's own list of identifiers through which fd 1/2 can be reached without
// a caller-supplied writer (kept in step with Model/Silent.v by the Coq runner: a reference the
// two disagree on shows up as either a violation without a finding or the reverse).
func goIsSink(r scanRef) bool {
	in := func(s string, l ...string) bool {
		for _, x := range l {
			if x == s {
				return true
			}
		}
		return false
	}
	switch r.Pkg {
	case "builtin":
		return in(r.Name, "print", "println")
	case "os":
		return in(r.Name, "Stdout", "Stderr", "NewFile")
	case "fmt":
		return in(r.Name, "Print", "Printf", "Println")
	case "log":
		return !in(r.Name, "New", "Logger", "Ldate", "Ltime", "Lmicroseconds", "Llongfile", "Lshortfile", "LUTC", "Lmsgprefix", "LstdFlags")
	case "log/slog":
		return in(r.Name, "Debug", "DebugContext", "Info", "InfoContext", "Warn", "WarnContext", "Error", "ErrorContext", "Log", "LogAttrs", "Default", "SetDefault", "With", "SetLogLoggerLevel")
	case "syscall":
		return in(r.Name, "Write", "Pwrite", "Writev", "Sendfile", "Syscall", "Syscall6", "Syscall9", "RawSyscall", "RawSyscall6", "Dup2", "Dup3", "Stdout", "Stderr", "ForkExec", "StartProcess", "Exec")
	case "runtime/debug":
		return in(r.Name, "PrintStack", "SetTraceback", "WriteHeapDump")
	case "net/http":
		return in(r.Name, "ListenAndServe", "ListenAndServeTLS", "Serve", "ServeTLS", "Server")
	case "net/http/httputil":
		return r.Name == "ReverseProxy"
	case "flag", "plugin", "net/rpc", "net/http/cgi", "net/http/fcgi", "golang.org/x/sys/unix", "golang.org/x/sys/windows", "C", "string":
		return true
	}
	return false
}

func coqStringLit(s string) string {
	var b strings.Builder
	b.WriteByte('"')
	for i := 0; i < len(s); i++ {
		c := s[i]
		switch {
		case c == '"':
			b.WriteString(`""`)
		case c >= 32 && c < 127:
			b.WriteByte(c)
		default:
			fmt.Fprintf(&b, "\\x%02x", c)
		}
	}
	b.WriteByte('"')
	return b.String()
}
