package main

// Family P: store wrappers that log every flush-path call (begin and end) into the
// run's event log, with per-call faults, delays and wedges; and a context whose
// AfterFunc callbacks run only when the harness says so.

import (
	"context"
	"errors"
	"io"
	"iter"
	"sync"
	"time"

	bs "github.com/danthegoodman1/bloomsearch"
)

var errPFault = errors.New("injected store fault")

// pStorePlan decides what a flush-path store call does. nth counts calls per kind from 0.
type pStorePlan struct {
	mu       sync.Mutex
	count    map[string]int
	faults   map[string]map[int]bool // kind -> nth -> fail
	delay    map[string]time.Duration
	wedge    map[string]map[int]chan struct{} // kind -> nth -> released when closed
	honorCtx bool                             // CreateFile / Update fail when their ctx is already done
	entered  map[string]map[int]chan struct{} // closed when the wedged call has begun
}

func newPStorePlan() *pStorePlan {
	return &pStorePlan{count: map[string]int{}, faults: map[string]map[int]bool{}, delay: map[string]time.Duration{},
		wedge: map[string]map[int]chan struct{}{}, entered: map[string]map[int]chan struct{}{}}
}

func (p *pStorePlan) fail(kind string, nth int) {
	if p.faults[kind] == nil {
		p.faults[kind] = map[int]bool{}
	}
	p.faults[kind][nth] = true
}

// wedgeAt makes the nth call of kind block until the returned release func is called;
// entered is closed once the call has begun.
func (p *pStorePlan) wedgeAt(kind string, nth int) (entered <-chan struct{}, release func()) {
	if p.wedge[kind] == nil {
		p.wedge[kind] = map[int]chan struct{}{}
		p.entered[kind] = map[int]chan struct{}{}
	}
	w, e := make(chan struct{}), make(chan struct{})
	p.wedge[kind][nth] = w
	p.entered[kind][nth] = e
	var once sync.Once
	return e, func() { once.Do(func() { close(w) }) }
}

// pStores bundles the wrapped DataStore and MetaStore of one run.
type pStores struct {
	run      *pRun
	plan     *pStorePlan
	data     bs.DataStore
	meta     bs.MetaStore
	hasAbort bool
}

// call runs one store operation: logs begin (with the liveness of ctx), applies the plan,
// performs op unless a fault was injected, logs the end.
func (s *pStores) call(ctx context.Context, kind string, op func() error) error {
	live := ctx == nil || ctx.Err() == nil
	s.run.logEv("h.sbegin", kind, pB2i(live), 0)
	p := s.plan
	p.mu.Lock()
	nth := p.count[kind]
	p.count[kind] = nth + 1
	fault := p.faults[kind][nth]
	d := p.delay[kind]
	w := p.wedge[kind][nth]
	e := p.entered[kind][nth]
	honor := p.honorCtx
	p.mu.Unlock()
	if e != nil {
		close(e)
	}
	if w != nil {
		<-w
	}
	if d > 0 {
		time.Sleep(d)
	}
	var err error
	switch {
	case fault:
		err = errPFault
	case honor && !live && (kind == "CreateFile" || kind == "Update"):
		err = ctx.Err()
	default:
		err = op()
	}
	s.run.logEv("h.send", kind, pB2i(err == nil), 0)
	return err
}

type pDataStore struct{ s *pStores }

type pWriter struct {
	s *pStores
	w io.WriteCloser
}

type pWriterAbort struct{ pWriter }

func (w pWriter) Write(b []byte) (int, error) {
	n := 0
	err := w.s.call(nil, "Write", func() error {
		var e error
		n, e = w.w.Write(b)
		return e
	})
	return n, err
}

func (w pWriter) Close() error { return w.s.call(nil, "Close", w.w.Close) }

func (w pWriterAbort) Abort() error {
	return w.s.call(nil, "Abort", func() error { return w.w.(interface{ Abort() error }).Abort() })
}

func (d pDataStore) CreateFile(ctx context.Context) (io.WriteCloser, []byte, error) {
	var w io.WriteCloser
	var ptr []byte
	err := d.s.call(ctx, "CreateFile", func() error {
		var e error
		w, ptr, e = d.s.data.CreateFile(ctx)
		return e
	})
	if err != nil {
		return nil, nil, err
	}
	if d.s.hasAbort {
		return pWriterAbort{pWriter{d.s, w}}, ptr, nil
	}
	return pWriter{d.s, w}, ptr, nil
}

func (d pDataStore) OpenFile(ctx context.Context, ptr []byte) (io.ReadSeekCloser, error) {
	return d.s.data.OpenFile(ctx, ptr)
}

func (d pDataStore) TombstoneFile(ctx context.Context, ptr []byte) error {
	return d.s.call(ctx, "Tombstone", func() error { return d.s.data.TombstoneFile(ctx, ptr) })
}

type pMetaStore struct{ s *pStores }

func (m pMetaStore) GetMaybeFilesForQuery(ctx context.Context, q *bs.QueryPrefilter) iter.Seq2[bs.MaybeFile, error] {
	return m.s.meta.GetMaybeFilesForQuery(ctx, q)
}

func (m pMetaStore) Update(ctx context.Context, w []bs.WriteOperation, d []bs.DeleteOperation) error {
	return m.s.call(ctx, "Update", func() error { return m.s.meta.Update(ctx, w, d) })
}

func pB2i(b bool) int64 {
	if b {
		return 1
	}
	return 0
}

// lateCtx is a context.Context that is not built on a std context (so context.AfterFunc
// cannot take the propagateCancel shortcut) and implements the AfterFunc hook of the
// context package: registered callbacks run only when fire() is called.
type lateCtx struct {
	mu    sync.Mutex
	done  chan struct{}
	err   error
	fns   []*lateFn
	fired bool
}

type lateFn struct {
	f       func()
	stopped bool
	started bool
}

func newLateCtx() *lateCtx { return &lateCtx{done: make(chan struct{})} }

func (c *lateCtx) Deadline() (time.Time, bool) { return time.Time{}, false }
func (c *lateCtx) Done() <-chan struct{}       { return c.done }
func (c *lateCtx) Value(any) any               { return nil }
func (c *lateCtx) Err() error {
	c.mu.Lock()
	defer c.mu.Unlock()
	return c.err
}

// AfterFunc is the method context.AfterFunc looks for (afterFuncer).
func (c *lateCtx) AfterFunc(f func()) func() bool {
	c.mu.Lock()
	defer c.mu.Unlock()
	lf := &lateFn{f: f}
	c.fns = append(c.fns, lf)
	return func() bool {
		c.mu.Lock()
		defer c.mu.Unlock()
		if lf.started || lf.stopped {
			return false
		}
		lf.stopped = true
		return true
	}
}

func (c *lateCtx) cancel() {
	c.mu.Lock()
	if c.err == nil {
		c.err = context.DeadlineExceeded
		close(c.done)
	}
	c.mu.Unlock()
}

// fire runs the callbacks that were not stopped (synchronously).
func (c *lateCtx) fire() {
	c.mu.Lock()
	var run []func()
	for _, lf := range c.fns {
		if !lf.started && !lf.stopped {
			lf.started = true
			run = append(run, lf.f)
		}
	}
	c.mu.Unlock()
	for _, f := range run {
		f()
	}
}
