package main

// Generators for JSON-marshalable rows, bloom / regex query trees and tokenizers,
// with Coq renderings of the query trees.

import (
	"encoding/json"
	"fmt"
	"math"
	"regexp"
	"strings"
	"time"

	bs "github.com/danthegoodman1/bloomsearch"
)

var keyPool = []string{"a", "b", "user", "name", "tags", "a.b", "a.b.c", ".", "..", ".a", "a.", "*", "?", "a*", "\\", "a\\.b",
	"::", "a::b", "", "Ünï", "K", "msg", "level", "n", "x y", "é", "a.b.", "b.a", "c"}

var wordPool = []string{"john", "Doe", "ERROR", "error", "İstanbul", "K", "ǅ", "ẞ", "ΣΑΣ", "a::b", "x.y", "1", "true", "null",
	"😀", "foo,bar", "Hello", "wORLD", "ß", "É", "é", "user", "42", "-1.5e3", "a", "b"}

var sepPool = []string{" ", " ", " ", "\t", "\n", " ", " ", "　", "\u0085", "\v", "\f", "\r", "  "}

var rawPool = []string{
	`{"a":1,"a":2}`, `{"k" : [ 1 , 2 ,{"z":null} ] }`, `"A\né"`, `1E5`, `-0`, `1.0`, `[[["deep"]]]`,
	`{"":{"b":1}}`, `{"a.b":{"c.d":"x y"}}`, `"😀"`, `{"dup":"first","dup":"second","dup":{"x":1}}`,
	`12345678901234567890123`, `0.1e-7`, `{"a":{"b":1},"a.b":2}`, `"tab\there"`, `true`, `null`, `[]`, `{}`,
	`"` + "\xff\xfe" + `"`, `{"` + "\xc3" + `":"bad key"}`, `"\ud800"`, `"\udc00x"`, `{"e":"ÉCOLE K"}`,
}

func (c *Ctx) genWord() string { return wordPool[c.intn(len(wordPool))] }

func (c *Ctx) genText() string {
	n := c.intn(5)
	var b strings.Builder
	if c.chance(0.15) {
		b.WriteString(sepPool[c.intn(len(sepPool))])
	}
	for i := 0; i < n; i++ {
		if i > 0 {
			b.WriteString(sepPool[c.intn(len(sepPool))])
		}
		b.WriteString(c.genWord())
	}
	if c.chance(0.1) {
		b.WriteString(sepPool[c.intn(len(sepPool))])
	}
	if c.chance(0.04) {
		b.WriteString("\xff\xfe")
	}
	return b.String()
}

func (c *Ctx) genKey() string { return keyPool[c.intn(len(keyPool))] }

func (c *Ctx) genScalar() any {
	switch c.intn(16) {
	case 0, 1, 2, 3, 4, 5, 6:
		return c.genText()
	case 7:
		return c.intn(200) - 100
	case 8:
		return float64(c.intn(2000)-1000) / 16
	case 9:
		return c.genI64()
	case 10:
		return c.chance(0.5)
	case 11:
		return nil
	case 12:
		return json.Number([]string{"5", "-7.25", "1e3", "123456789012345678901234567890", "0"}[c.intn(5)])
	case 13:
		return uint64(math.MaxUint64 - uint64(c.intn(3)))
	case 14:
		return time.Duration(c.intn(1000))
	default:
		return json.RawMessage(rawPool[c.intn(len(rawPool))])
	}
}

func (c *Ctx) genValue(depth int) any {
	r := c.intn(100)
	switch {
	case depth <= 0 || r < 62:
		return c.genScalar()
	case r < 82:
		return c.genObject(depth - 1)
	default:
		n := c.intn(4)
		arr := make([]any, n)
		for i := range arr {
			arr[i] = c.genValue(depth - 1)
		}
		return arr
	}
}

func (c *Ctx) genObject(depth int) map[string]any {
	n := c.intn(5)
	m := make(map[string]any, n)
	for i := 0; i < n; i++ {
		m[c.genKey()] = c.genValue(depth)
	}
	return m
}

// genRow draws a row; it is always json.Marshal-able.
func (c *Ctx) genRow() map[string]any {
	row := c.genObject(3)
	if len(row) == 0 && c.chance(0.8) {
		row[c.genKey()] = c.genScalar()
	}
	return row
}

// ---- tokenizers ----
type tokenizerSpec struct {
	name   string
	fn     bs.ValueTokenizerFunc // what the engine is configured with
	oracle func(string) []string // independent definition of the same function
}

func commaSplit(v string) []string     { return strings.Split(v, ",") }
func wholeUpper(v string) []string     { return []string{strings.ToUpper(v)} }
func fieldsKeepCase(v string) []string { return strings.Fields(v) }

var tokenizers = []tokenizerSpec{
	{"default", bs.BasicWhitespaceLowerTokenizer, func(v string) []string { return strings.Fields(strings.ToLower(v)) }},
	{"comma-split", commaSplit, commaSplit},
	{"whole-upper", wholeUpper, wholeUpper},
	{"fields-keep-case", fieldsKeepCase, fieldsKeepCase},
}

func (c *Ctx) genTokenizer() tokenizerSpec {
	if c.chance(0.55) {
		return tokenizers[0]
	}
	return tokenizers[1+c.intn(len(tokenizers)-1)]
}

// ---- query trees ----
var patternPool = []string{"^j", "o", "[0-9]+", "(?i)error", "^$", ".", "x\\.y", "^true$", "é", "^-?[0-9.e+-]+$", "null", "(?i)^hello", "\\s", "a|b"}

type hitSet struct {
	paths  []string
	tokens []string
	pairs  [][2]string // (leaf path, token)
}

func (c *Ctx) mutatePath(p string) string {
	switch c.intn(5) {
	case 0:
		return p + ".x"
	case 1:
		if i := strings.LastIndex(p, "."); i > 0 {
			return p[:i]
		}
		return p
	case 2:
		if len(p) > 1 {
			return p[:len(p)-1]
		}
		return p
	case 3:
		return "." + p
	default:
		return strings.ToUpper(p)
	}
}

func (c *Ctx) pickField(h *hitSet) string {
	if len(h.paths) > 0 && c.chance(0.65) {
		p := h.paths[c.intn(len(h.paths))]
		if c.chance(0.2) {
			return c.mutatePath(p)
		}
		return p
	}
	if c.chance(0.1) {
		return ""
	}
	return c.genKey()
}

func (c *Ctx) pickToken(h *hitSet) string {
	if len(h.tokens) > 0 && c.chance(0.65) {
		return h.tokens[c.intn(len(h.tokens))]
	}
	if c.chance(0.5) {
		return strings.ToLower(c.genWord())
	}
	return c.genWord()
}

func (c *Ctx) genBExpr(depth int, h *hitSet) bs.BloomExpression {
	r := c.intn(100)
	if depth <= 0 || r < 50 {
		switch x := c.intn(40); {
		case x == 0:
			c.dist("bexpr_nodes", "nil-condition")
			return bs.BloomExpression{ExpressionType: bs.BloomExpressionCondition}
		case x == 1:
			c.dist("bexpr_nodes", "unknown-condition-type")
			return bs.BloomExpression{ExpressionType: bs.BloomExpressionCondition, Condition: &bs.BloomCondition{Type: "BOGUS"}}
		case x == 2:
			c.dist("bexpr_nodes", "unknown-expression-type")
			return bs.BloomExpression{ExpressionType: "BOGUS"}
		case x < 15:
			c.dist("bexpr_nodes", "field")
			return bs.Field(c.pickField(h))
		case x < 27:
			c.dist("bexpr_nodes", "token")
			return bs.Token(c.pickToken(h))
		default:
			c.dist("bexpr_nodes", "fieldtoken")
			if len(h.pairs) > 0 && c.chance(0.6) {
				p := h.pairs[c.intn(len(h.pairs))]
				return bs.FieldToken(p[0], p[1])
			}
			return bs.FieldToken(c.pickField(h), c.pickToken(h))
		}
	}
	n := c.intn(4)
	kids := make([]bs.BloomExpression, n)
	for i := range kids {
		kids[i] = c.genBExpr(depth-1, h)
	}
	useCtor := c.chance(0.5)
	if r < 76 {
		c.dist("bexpr_nodes", fmt.Sprintf("and/%d", n))
		if useCtor {
			return bs.And(kids...)
		}
		return bs.BloomExpression{ExpressionType: bs.BloomExpressionAnd, Children: kids}
	}
	c.dist("bexpr_nodes", fmt.Sprintf("or/%d", n))
	if useCtor {
		return bs.Or(kids...)
	}
	return bs.BloomExpression{ExpressionType: bs.BloomExpressionOr, Children: kids}
}

func (c *Ctx) genRExpr(depth int, h *hitSet) bs.RegexExpression {
	r := c.intn(100)
	if depth <= 0 || r < 55 {
		switch x := c.intn(40); {
		case x < 3:
			c.dist("rexpr_nodes", "nil-condition")
			return bs.RegexExpression{ExpressionType: bs.RegexExpressionCondition}
		case x == 3:
			c.dist("rexpr_nodes", "unknown-expression-type")
			return bs.RegexExpression{ExpressionType: "BOGUS"}
		case x == 4:
			c.dist("rexpr_nodes", "invalid-pattern")
			return bs.FieldRegex(c.pickField(h), "(")
		default:
			c.dist("rexpr_nodes", "fieldregex")
			f := c.pickField(h)
			if c.chance(0.3) {
				if i := strings.Index(f, "."); i > 0 {
					f = f[:i] // an ancestor: exercises at-or-beneath
				}
			}
			return bs.FieldRegex(f, patternPool[c.intn(len(patternPool))])
		}
	}
	n := c.intn(4)
	kids := make([]bs.RegexExpression, n)
	for i := range kids {
		kids[i] = c.genRExpr(depth-1, h)
	}
	useCtor := c.chance(0.5)
	if r < 78 {
		c.dist("rexpr_nodes", fmt.Sprintf("and/%d", n))
		if useCtor {
			return bs.RegexAnd(kids...)
		}
		return bs.RegexExpression{ExpressionType: bs.RegexExpressionAnd, Children: kids}
	}
	c.dist("rexpr_nodes", fmt.Sprintf("or/%d", n))
	if useCtor {
		return bs.RegexOr(kids...)
	}
	return bs.RegexExpression{ExpressionType: bs.RegexExpressionOr, Children: kids}
}

// ---- Coq renderings ----
func coqBCond(cd *bs.BloomCondition) string {
	switch cd.Type {
	case bs.BloomField:
		return "(CField " + coqS(cd.Field) + ")"
	case bs.BloomToken:
		return "(CToken " + coqS(cd.Token) + ")"
	case bs.BloomFieldToken:
		return "(CFieldToken " + coqS(cd.Field) + " " + coqS(cd.Token) + ")"
	}
	return "CUnk"
}

func coqBExpr(e *bs.BloomExpression) string {
	switch e.ExpressionType {
	case bs.BloomExpressionCondition:
		if e.Condition == nil {
			return "(BCond None)"
		}
		return "(BCond (Some " + coqBCond(e.Condition) + "))"
	case bs.BloomExpressionAnd, bs.BloomExpressionOr:
		kids := make([]string, len(e.Children))
		for i := range e.Children {
			kids[i] = coqBExpr(&e.Children[i])
		}
		if e.ExpressionType == bs.BloomExpressionAnd {
			return "(BAnd " + coqList(kids) + ")"
		}
		return "(BOr " + coqList(kids) + ")"
	}
	return "BUnk"
}

func coqBQuery(q *bs.BloomQuery) string {
	if q == nil || q.Expression == nil {
		return "None"
	}
	return "(Some " + coqBExpr(q.Expression) + ")"
}

func coqRExpr(e *bs.RegexExpression) string {
	switch e.ExpressionType {
	case bs.RegexExpressionCondition:
		if e.Condition == nil {
			return "(RCond None)"
		}
		return "(RCond (Some (" + coqS(e.Condition.Field) + ", " + coqS(e.Condition.Pattern) + ")))"
	case bs.RegexExpressionAnd, bs.RegexExpressionOr:
		kids := make([]string, len(e.Children))
		for i := range e.Children {
			kids[i] = coqRExpr(&e.Children[i])
		}
		if e.ExpressionType == bs.RegexExpressionAnd {
			return "(RAnd " + coqList(kids) + ")"
		}
		return "(ROr " + coqList(kids) + ")"
	}
	return "RUnk"
}

func coqRQuery(q *bs.RegexQuery) string {
	if q == nil || q.Expression == nil {
		return "None"
	}
	return "(Some " + coqRExpr(q.Expression) + ")"
}

// regexAcceptable reports whether Query accepts the regex tree (every pattern compiles, no unknown node).
func regexAcceptable(e *bs.RegexExpression) bool {
	switch e.ExpressionType {
	case bs.RegexExpressionCondition:
		if e.Condition == nil {
			return true
		}
		_, err := regexp.Compile(e.Condition.Pattern)
		return err == nil
	case bs.RegexExpressionAnd, bs.RegexExpressionOr:
		for i := range e.Children {
			if !regexAcceptable(&e.Children[i]) {
				return false
			}
		}
		return true
	}
	return false
}

func regexPatterns(e *bs.RegexExpression, out map[string]bool) {
	if e.Condition != nil {
		out[e.Condition.Pattern] = true
	}
	for i := range e.Children {
		regexPatterns(&e.Children[i], out)
	}
}

// tables
func coqTokTab(texts map[string]bool, oracle func(string) []string) string {
	items := []string{}
	for _, t := range sortedKeys(texts) {
		items = append(items, coqPair(coqS(t), coqStrList(oracle(t))))
	}
	return coqList(items)
}

func coqReTab(texts map[string]bool, pats map[string]bool) string {
	items := []string{}
	for _, p := range sortedKeys(pats) {
		re, err := regexp.Compile(p)
		if err != nil {
			continue
		}
		for _, t := range sortedKeys(texts) {
			items = append(items, fmt.Sprintf("(%s, %s, %s)", coqS(p), coqS(t), coqBool(re.MatchString(t))))
		}
	}
	return coqList(items)
}
