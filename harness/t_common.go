package main

// Family T (file format) shared pieces: Coq printers for the metadata records,
// an instrumented ReadSeeker, an independent section slicer, an independent
// entry walker and filter builder, decompression through the libraries, and
// the engine scenario builder used by c03 / c17 / c19.

import (
	"bytes"
	"context"
	"encoding/binary"
	"encoding/json"
	"errors"
	"fmt"
	"hash/crc32"
	"io"
	"iter"
	"sort"
	"strings"
	"time"

	"github.com/bits-and-blooms/bloom/v3"
	bs "github.com/danthegoodman1/bloomsearch"
	"github.com/klauspost/compress/snappy"
	"github.com/klauspost/compress/zstd"
)

const runnerT = "Lib.Wrap64 Lib.Crc32c Model.Framing Model.Validate Model.FilterRegion Model.Footer Model.ScanPool Cases.RunnerT"

var crcTab = crc32.MakeTable(crc32.Castagnoli)

// ---------------------------------------------------------------- Coq printers

func coqComp(c bs.CompressionType) string {
	switch c {
	case "", bs.CompressionNone:
		return "CNone"
	case bs.CompressionSnappy:
		return "CSnappy"
	case bs.CompressionZstd:
		return "CZstd"
	}
	return "COther"
}

func coqCnt(c bs.BloomEntryCounts) string {
	return fmt.Sprintf("(%s, %s, %s)", coqZ(int64(c.Fields)), coqZ(int64(c.Tokens)), coqZ(int64(c.FieldTokens)))
}

func coqBlockJ(b *bs.DataBlockMetadata) string {
	return fmt.Sprintf("{| rdo := %s; rds := %s; bfo := %s; bfs := %s; b_rows := %s; b_usize := %s; b_comp := %s; b_hash := %s; b_has_hash := %s; b_cnt := %s |}",
		coqZ(int64(b.RowDataOffset)), coqZ(int64(b.RowDataSize)), coqZ(int64(b.BloomFilterOffset)), coqZ(int64(b.BloomFilterSize)),
		coqZ(int64(b.Rows)), coqZ(int64(b.UncompressedSize)), coqComp(b.Compression), coqN(uint64(b.RowDataHash)), coqBool(b.HasRowDataHash), coqCnt(b.BloomEntryCounts))
}

func coqBlocks(blocks []bs.DataBlockMetadata) string {
	items := make([]string, len(blocks))
	for i := range blocks {
		items[i] = coqBlockJ(&blocks[i])
	}
	return coqList(items)
}

// metaMirror is the harness's own decode target for the footer's JSON payload
// (field names of fileMetadataJSON; decoding is encoding/json's business).
type metaMirror struct {
	BloomFalsePositiveRate  float64
	BloomEntryCounts        bs.BloomEntryCounts `json:",omitzero"`
	BlockFilterRegionOffset int
	BlockFilterRegionSize   int
	FileFilterSectionSize   int
	DataBlocks              []bs.DataBlockMetadata
}

func coqMetaJ(roff, rsize, ffs int, cnt bs.BloomEntryCounts, blocks []bs.DataBlockMetadata) string {
	return fmt.Sprintf("{| m_roff := %s; m_rsize := %s; m_ffs := %s; m_cnt := %s; m_blocks := %s |}",
		coqZ(int64(roff)), coqZ(int64(rsize)), coqZ(int64(ffs)), coqCnt(cnt), coqBlocks(blocks))
}

func (m *metaMirror) coq() string {
	return coqMetaJ(m.BlockFilterRegionOffset, m.BlockFilterRegionSize, m.FileFilterSectionSize, m.BloomEntryCounts, m.DataBlocks)
}

func filterBytes(f *bloom.BloomFilter) []byte {
	if f == nil {
		return nil
	}
	var buf bytes.Buffer
	_, err := f.WriteTo(&buf)
	must(err)
	return buf.Bytes()
}

func coqFilterOpt(f *bloom.BloomFilter) string {
	if f == nil {
		return "None"
	}
	return "(Some " + coqStr(filterBytes(f)) + ")"
}

func coqFilters(f *bs.BloomFilters) string {
	if f == nil {
		return "(None, None, None)"
	}
	return fmt.Sprintf("(%s, %s, %s)", coqFilterOpt(f.FieldBloomFilter), coqFilterOpt(f.TokenBloomFilter), coqFilterOpt(f.FieldTokenBloomFilter))
}

func coqExts(exts [][2]int64) string {
	items := make([]string, len(exts))
	for i, e := range exts {
		items[i] = coqPair(coqZ(e[0]), coqZ(e[1]))
	}
	return coqList(items)
}

func coqStrs(bb [][]byte) string {
	items := make([]string, len(bb))
	for i, b := range bb {
		items[i] = coqStr(b)
	}
	return coqList(items)
}

// ---------------------------------------------------------------- instrumented reader

// probeFile is an io.ReadSeeker over size bytes of content that logs every
// Seek/Read. Each Seek(SeekStart) opens an extent; Reads add their requested
// length to the current extent.
type probeFile struct {
	fill   func(off int64, p []byte) // content of [off, off+len(p)), fully inside the file
	size   int64
	pos    int64
	exts   [][2]int64
	oob    []string // reads that reach beyond the end, seeks to a negative position
	maxReq int64
	reads  int
}

func newProbe(data []byte) *probeFile {
	return &probeFile{size: int64(len(data)), fill: func(off int64, p []byte) { copy(p, data[off:]) }}
}

func (f *probeFile) Seek(off int64, whence int) (int64, error) {
	var abs int64
	switch whence {
	case io.SeekStart:
		abs = off
	case io.SeekCurrent:
		abs = f.pos + off
	case io.SeekEnd:
		abs = f.size + off
	default:
		return 0, errors.New("probe: invalid whence")
	}
	if abs < 0 {
		f.oob = append(f.oob, fmt.Sprintf("seek to %d", abs))
		return 0, errors.New("probe: negative position")
	}
	f.pos = abs
	if whence == io.SeekStart {
		f.exts = append(f.exts, [2]int64{abs, 0})
	}
	return abs, nil
}

func (f *probeFile) Read(p []byte) (int, error) {
	f.reads++
	if len(f.exts) == 0 {
		f.exts = append(f.exts, [2]int64{f.pos, 0})
	}
	f.exts[len(f.exts)-1][1] += int64(len(p))
	if int64(len(p)) > f.maxReq {
		f.maxReq = int64(len(p))
	}
	if len(p) == 0 {
		return 0, nil
	}
	if f.pos >= f.size {
		f.oob = append(f.oob, fmt.Sprintf("read %d at %d (size %d)", len(p), f.pos, f.size))
		return 0, io.EOF
	}
	n := int64(len(p))
	if f.pos+n > f.size {
		f.oob = append(f.oob, fmt.Sprintf("read %d at %d (size %d)", len(p), f.pos, f.size))
		n = f.size - f.pos
		f.fill(f.pos, p[:n])
		f.pos += n
		return int(n), io.EOF
	}
	f.fill(f.pos, p)
	f.pos += n
	return int(n), nil
}

func (f *probeFile) Close() error { return nil }

func (f *probeFile) reset() { f.exts, f.oob, f.maxReq, f.reads = nil, nil, 0, 0 }

// ---------------------------------------------------------------- independent section slicing

// sectionPayloads cuts a filter section into the byte strings its length
// prefixes delimit, without judging them (the harness's own framing walk; used
// only to ask the bloom library about exactly those byte strings).
func sectionPayloads(section []byte) [][]byte {
	if len(section) < 5 {
		return nil
	}
	payload := section[:len(section)-4]
	flags := payload[0]
	rest := payload[1:]
	var out [][]byte
	for bit := 0; bit < 3; bit++ {
		if flags&(1<<bit) == 0 {
			continue
		}
		if len(rest) < 4 {
			return out
		}
		n := binary.LittleEndian.Uint32(rest)
		rest = rest[4:]
		if uint64(n) > uint64(len(rest)) {
			return out
		}
		out = append(out, rest[:n])
		rest = rest[n:]
	}
	return out
}

// bloomDecodes asks the bloom library whether it accepts these bytes. Byte
// strings whose bitset length field would make the library allocate more than
// the bytes can hold are not submitted (reported as undecodable), so a crafted
// length cannot take the harness down.
func bloomDecodes(b []byte) bool {
	if len(b) < 24 {
		f := &bloom.BloomFilter{}
		_, err := f.ReadFrom(bytes.NewReader(b))
		return err == nil
	}
	bits := binary.BigEndian.Uint64(b[16:24])
	if bits/8 > uint64(len(b))+64 {
		return false
	}
	f := &bloom.BloomFilter{}
	_, err := f.ReadFrom(bytes.NewReader(b))
	return err == nil
}

// decTable renders the decodability oracle for every payload of the sections.
func decTable(sections ...[]byte) string {
	seen := map[string]bool{}
	var items []string
	for _, s := range sections {
		for _, p := range sectionPayloads(s) {
			if seen[string(p)] {
				continue
			}
			seen[string(p)] = true
			items = append(items, coqPair(coqStr(p), coqBool(bloomDecodes(p))))
		}
	}
	return coqList(items)
}

// ---------------------------------------------------------------- decompression through the libraries

func libDecompress(comp bs.CompressionType, c []byte, limit int) ([]byte, bool) {
	var r io.Reader
	switch comp {
	case bs.CompressionSnappy:
		r = snappy.NewReader(bytes.NewReader(c))
	case bs.CompressionZstd:
		d, err := zstd.NewReader(bytes.NewReader(c), zstd.WithDecoderConcurrency(1))
		if err != nil {
			return nil, false
		}
		defer d.Close()
		r = d
	default:
		return nil, false
	}
	out, err := io.ReadAll(io.LimitReader(r, int64(limit)+1))
	if err != nil || len(out) > limit {
		return nil, false
	}
	return out, true
}

func coqOptStr(b []byte, ok bool) string {
	if !ok {
		return "None"
	}
	return "(Some " + coqStr(b) + ")"
}

// ---------------------------------------------------------------- independent entry walker

type rowEntries struct {
	fields, tokens, fieldTokens []string
	tok                         func(string) []string // nil: the default tokenizer's definition
}

func (e *rowEntries) coq() string {
	return fmt.Sprintf("(%s, %s, %s)", coqStrList(e.fields), coqStrList(e.tokens), coqStrList(e.fieldTokens))
}

// walkEntries enumerates the bloom entries of one marshaled row: every path
// (containers, delimiter-split key prefixes, leaves) as a field, the
// lower-cased whitespace-separated words of every leaf text as tokens, and
// path::token pairs. Written from the documented semantics over
// encoding/json's token stream (neither gjson nor the engine's walker).
func walkEntries(row []byte) (*rowEntries, error) { return walkEntriesWith(row, nil) }

// walkEntriesWith is walkEntries under the harness's own definition tok of the configured tokenizer.
func walkEntriesWith(row []byte, tok func(string) []string) (*rowEntries, error) {
	dec := json.NewDecoder(bytes.NewReader(row))
	dec.UseNumber()
	out := &rowEntries{tok: tok}
	if err := walkEntryValue(dec, "", out); err != nil {
		return nil, err
	}
	return out, nil
}

func (e *rowEntries) leaf(path, text string, hasText bool) {
	if path == "" {
		return
	}
	e.fields = append(e.fields, path)
	if !hasText {
		return
	}
	var toks []string
	if e.tok != nil {
		toks = e.tok(text)
	} else {
		toks = strings.Fields(strings.ToLower(text))
	}
	for _, tok := range toks {
		e.tokens = append(e.tokens, tok)
		e.fieldTokens = append(e.fieldTokens, path+"::"+tok)
	}
}

func walkEntryValue(dec *json.Decoder, path string, out *rowEntries) error {
	tok, err := dec.Token()
	if err != nil {
		return err
	}
	switch t := tok.(type) {
	case json.Delim:
		if path != "" {
			out.fields = append(out.fields, path)
		}
		if t == '{' {
			for dec.More() {
				kt, err := dec.Token()
				if err != nil {
					return err
				}
				key := kt.(string)
				child := key
				if path != "" {
					child = path + "." + key
				}
				for i := 0; i < len(key); i++ {
					if key[i] == '.' {
						p := key[:i]
						if path != "" {
							p = path + "." + p
						}
						if p != "" {
							out.fields = append(out.fields, p)
						}
					}
				}
				if err := walkEntryValue(dec, child, out); err != nil {
					return err
				}
			}
		} else {
			for dec.More() {
				if err := walkEntryValue(dec, path, out); err != nil {
					return err
				}
			}
		}
		_, err := dec.Token()
		return err
	case string:
		out.leaf(path, t, true)
	case json.Number:
		out.leaf(path, t.String(), true)
	case bool:
		if t {
			out.leaf(path, "true", true)
		} else {
			out.leaf(path, "false", true)
		}
	case nil:
		out.leaf(path, "", false)
	}
	return nil
}

// entryDict numbers the distinct entry strings of one case; entry lists travel
// to Coq as packed 2-byte indexes and are expanded there before the model dedups them.
type entryDict struct {
	idx   map[string]int
	words []string
}

func newEntryDict() *entryDict { return &entryDict{idx: map[string]int{}} }

func (d *entryDict) pack(ss []string) string {
	buf := make([]byte, 0, 2*len(ss))
	for _, s := range ss {
		i, ok := d.idx[s]
		if !ok {
			i = len(d.words)
			if i >= 65536 {
				panic("entry dictionary overflow")
			}
			d.idx[s] = i
			d.words = append(d.words, s)
		}
		buf = append(buf, byte(i>>8), byte(i))
	}
	return coqStr(buf)
}

func (d *entryDict) pack3(e *rowEntries) string {
	return fmt.Sprintf("(%s, %s, %s)", d.pack(e.fields), d.pack(e.tokens), d.pack(e.fieldTokens))
}

func distinct(ss []string) []string {
	seen := map[string]bool{}
	var out []string
	for _, s := range ss {
		if !seen[s] {
			seen[s] = true
			out = append(out, s)
		}
	}
	return out
}

// rebuildFilters builds the three filters a set of rows should have, sized
// from the distinct entry counts at the given false positive rate.
func rebuildFilters(entries []*rowEntries, fpr float64) (bs.BloomFilters, bs.BloomEntryCounts) {
	var f, t, ft []string
	for _, e := range entries {
		f = append(f, e.fields...)
		t = append(t, e.tokens...)
		ft = append(ft, e.fieldTokens...)
	}
	build := func(ss []string) (*bloom.BloomFilter, int) {
		d := distinct(ss)
		n := len(d)
		if n < 1 {
			n = 1
		}
		bf := bloom.NewWithEstimates(uint(n), fpr)
		for _, s := range d {
			bf.AddString(s)
		}
		return bf, len(d)
	}
	bf1, n1 := build(f)
	bf2, n2 := build(t)
	bf3, n3 := build(ft)
	return bs.BloomFilters{FieldBloomFilter: bf1, TokenBloomFilter: bf2, FieldTokenBloomFilter: bf3},
		bs.BloomEntryCounts{Fields: n1, Tokens: n2, FieldTokens: n3}
}

// ---------------------------------------------------------------- rows and engines

var tWords = []string{"alpha", "Beta", "GAMMA", "delta", "épsilon", "ζήτα", "payment", "error", "warn", "x", "日本", "tab\there", "quote\"q", "back\\slash", "nl\nline", "emoji😀", "<html>&amp;", " sep", "nul\u0000c"}
var tKeys = []string{"a", "b", "msg", "svc", "user.name", "k.l.m", "Ünï", "n", "deep", "list", "e\"q", "sp ace"}

func (c *Ctx) tWord() string { return tWords[c.intn(len(tWords))] }

func (c *Ctx) tText() string {
	n := 1 + c.intn(4)
	parts := make([]string, n)
	for i := range parts {
		parts[i] = c.tWord()
	}
	return strings.Join(parts, " ")
}

func (c *Ctx) tValue(depth int) any {
	switch k := c.intn(12); {
	case k < 4:
		return c.tText()
	case k == 4:
		return c.intn(2000) - 1000
	case k == 5:
		return float64(c.intn(100000)) / 64
	case k == 6:
		return c.chance(0.5)
	case k == 7:
		return nil
	case k == 8:
		return []int64{9007199254740993, -9223372036854775808, 1 << 53}[c.intn(3)]
	case k == 9 && depth > 0:
		n := c.intn(4)
		arr := make([]any, n)
		for i := range arr {
			arr[i] = c.tValue(depth - 1)
		}
		return arr
	case k >= 10 && depth > 0:
		n := c.intn(4)
		m := map[string]any{}
		for i := 0; i < n; i++ {
			m[tKeys[c.intn(len(tKeys))]] = c.tValue(depth - 1)
		}
		return m
	}
	return c.tWord()
}

// tRow generates a JSON-able row with a unique id and optional partition key.
func (c *Ctx) tRow(id int, partitions int) map[string]any {
	row := map[string]any{"id": id}
	if partitions > 0 {
		row["p"] = fmt.Sprintf("p%d", c.intn(partitions))
	}
	n := 1 + c.intn(5)
	for i := 0; i < n; i++ {
		row[tKeys[c.intn(len(tKeys))]] = c.tValue(2)
	}
	if c.chance(0.5) {
		row["n"] = c.intn(100000)
	}
	return row
}

type tConfig struct {
	cfg        bs.BloomSearchEngineConfig
	partitions int
	desc       string
}

// tGenConfig draws an engine configuration: compression, partitioning, limits, fpr.
func (c *Ctx) tGenConfig() tConfig {
	cfg := bs.DefaultBloomSearchEngineConfig()
	comps := []bs.CompressionType{bs.CompressionNone, bs.CompressionSnappy, bs.CompressionZstd}
	cfg.RowDataCompression = comps[c.intn(3)]
	cfg.ZstdCompressionLevel = 1 + c.intn(4)
	cfg.BloomFalsePositiveRate = []float64{0.001, 0.01, 0.2}[c.intn(3)]
	cfg.MaxRowGroupRows = 2 + c.intn(10)
	cfg.MaxRowGroupBytes = 400 + c.intn(4000)
	cfg.MaxBufferedRows = 3 + c.intn(20)
	cfg.MaxBufferedBytes = 1 << 20
	cfg.MaxBufferedTime = time.Hour
	cfg.MaxFileSize = 1 << 30
	if c.chance(0.3) {
		cfg.MinMaxIndexes = []string{"n"}
	}
	parts := 0
	if c.chance(0.65) {
		parts = 1 + c.intn(4)
		cfg.PartitionFunc = func(row map[string]any) string {
			p, _ := row["p"].(string)
			return p
		}
	}
	return tConfig{cfg: cfg, partitions: parts,
		desc: fmt.Sprintf("comp=%s lvl=%d fpr=%g rgRows=%d rgBytes=%d bufRows=%d parts=%d minmax=%v", cfg.RowDataCompression, cfg.ZstdCompressionLevel,
			cfg.BloomFalsePositiveRate, cfg.MaxRowGroupRows, cfg.MaxRowGroupBytes, cfg.MaxBufferedRows, parts, len(cfg.MinMaxIndexes) > 0)}
}

type tWorld struct {
	tc    tConfig
	eng   *bs.BloomSearchEngine
	meta  *bs.MemoryMetaStore
	store *memDataStore
	rows  map[int]map[string]any // by id
	json  map[int][]byte         // the harness's own json.Marshal of each row
	// walkTok is the harness's own definition of the world's configured tokenizer (nil: the default one)
	walkTok func(string) []string
}

func (c *Ctx) tNewWorld(tc tConfig) *tWorld {
	w := &tWorld{tc: tc, meta: bs.NewMemoryMetaStore(), store: newMemDataStore(), rows: map[int]map[string]any{}, json: map[int][]byte{}}
	eng, err := bs.NewBloomSearchEngine(tc.cfg, w.meta, w.store)
	must(err)
	eng.Start()
	w.eng = eng
	return w
}

// ingest adds rows (ids from len(w.rows)) in random batches, flushing at random points and at the end.
func (c *Ctx) tIngest(w *tWorld, rows []map[string]any) {
	ctx := context.Background()
	var dones, rejected []chan error
	for i := 0; i < len(rows); {
		n := 1 + c.intn(6)
		if i+n > len(rows) {
			n = len(rows) - i
		}
		batch := rows[i : i+n]
		for _, r := range batch {
			id := r["id"].(int)
			w.rows[id] = r
			b, err := json.Marshal(r)
			must(err)
			w.json[id] = b
		}
		done := make(chan error, 1)
		must(w.eng.IngestRows(ctx, batch, done))
		dones = append(dones, done)
		i += n
		// a batch the engine must reject as a whole: well-formed rows for partitions that have buffered
		// rows right now, carrying field names and tokens no stored row has, then a row that cannot be
		// serialized. Nothing of it may reach a file: not its rows, not their index entries.
		if c.chance(0.3) {
			var ghost []map[string]any
			for k := 0; k < 1+c.intn(2); k++ {
				g := map[string]any{}
				for f, v := range batch[c.intn(len(batch))] {
					g[f] = v
				}
				g["id"] = -1 - k
				g[fmt.Sprintf("ghostfield%d", i+k)] = fmt.Sprintf("ghosttoken%d rejected%d", i+k, k)
				ghost = append(ghost, g)
			}
			bad := map[string]any{"id": -9, "bad": make(chan int)}
			if p, ok := ghost[0]["p"]; ok {
				bad["p"] = p
			}
			ghost = append(ghost, bad)
			rdone := make(chan error, 1)
			must(w.eng.IngestRows(ctx, ghost, rdone))
			rejected = append(rejected, rdone)
		}
		if c.chance(0.25) {
			must(w.eng.Flush(ctx))
		}
	}
	must(w.eng.Flush(ctx))
	for _, d := range rejected {
		select {
		case err := <-d:
			if err == nil {
				panic("a batch with a row that cannot be serialized was acknowledged with nil")
			}
		case <-time.After(30 * time.Second):
			panic("rejected batch not answered after Flush")
		}
	}
	// acknowledgements arrive once the rows are durable
	for _, d := range dones {
		select {
		case err := <-d:
			must(err)
		case <-time.After(30 * time.Second):
			panic("ingest acknowledgement missing after Flush")
		}
	}
}

func (w *tWorld) stop() {
	ctx, cancel := context.WithTimeout(context.Background(), 20*time.Second)
	defer cancel()
	w.eng.Stop(ctx)
}

// legacyMetaStore serves another MetaStore's files the way a writer from before construction-time
// normalization recorded them: uncompressed blocks carry the empty Compression value, which the read
// path documents as equal to "none" (engine.go: normalizeCompression). Everything else is passed through;
// the yielded block slices are copies, the underlying store's metadata is not touched.
type legacyMetaStore struct{ bs.MetaStore }

func (l legacyMetaStore) GetMaybeFilesForQuery(ctx context.Context, q *bs.QueryPrefilter) iter.Seq2[bs.MaybeFile, error] {
	return func(yield func(bs.MaybeFile, error) bool) {
		for f, err := range l.MetaStore.GetMaybeFilesForQuery(ctx, q) {
			if err == nil {
				blocks := append([]bs.DataBlockMetadata(nil), f.Metadata.DataBlocks...)
				for i := range blocks {
					if blocks[i].Compression == bs.CompressionNone {
						blocks[i].Compression = ""
					}
				}
				f.Metadata.DataBlocks = blocks
			}
			if !yield(f, err) {
				return
			}
		}
	}
}

type tFile struct {
	pointer string
	meta    bs.FileMetadata
	data    []byte
}

// files lists the files the MetaStore references, with their bytes.
func (w *tWorld) files() []tFile {
	var out []tFile
	snap := w.store.snapshotFiles()
	for f, err := range w.meta.GetMaybeFilesForQuery(context.Background(), nil) {
		must(err)
		out = append(out, tFile{pointer: string(f.PointerBytes), meta: f.Metadata, data: snap[string(f.PointerBytes)]})
	}
	sort.Slice(out, func(i, j int) bool { return out[i].pointer < out[j].pointer })
	return out
}

// rowID extracts the id of a marshaled row.
func tRowID(b []byte) (int, bool) {
	var m struct {
		ID *int `json:"id"`
	}
	if json.Unmarshal(b, &m) != nil || m.ID == nil {
		return 0, false
	}
	return *m.ID, true
}

// footerParts cuts a file by the footer's own fields (harness-side, for oracle
// construction only): metadata JSON bytes and the decoded mirror.
func footerParts(data []byte) (mbytes []byte, mm *metaMirror, ok bool) {
	if len(data) < 20 {
		return nil, nil, false
	}
	mlen := int(binary.LittleEndian.Uint32(data[len(data)-16:]))
	moff := len(data) - 20 - mlen
	if moff < 0 {
		return nil, nil, false
	}
	mbytes = data[moff : moff+mlen]
	var m metaMirror
	if json.Unmarshal(mbytes, &m) != nil {
		return mbytes, nil, true
	}
	return mbytes, &m, true
}

func coqJD(mm *metaMirror) string {
	if mm == nil {
		return "None"
	}
	return "(Some " + mm.coq() + ")"
}

// safeCall runs f, turning a panic into an error string.
func safeCall(f func()) (panicked string) {
	defer func() {
		if r := recover(); r != nil {
			panicked = fmt.Sprint(r)
		}
	}()
	f()
	return ""
}

// collect drains a query.
func collect(eng *bs.BloomSearchEngine, q *bs.Query) (rows []map[string]any, qerr error, startErr error) {
	res, err := eng.Query(context.Background(), q)
	if err != nil {
		return nil, nil, err
	}
	defer res.Close()
	for res.Next() {
		rows = append(rows, res.Row())
	}
	return rows, res.Err(), nil
}
