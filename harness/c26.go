package main

// C26: every bloom filter written by flush or merge, at block and file level, is sized
// from the measured number of distinct entries it covers and the configured rate, and
// holds exactly those entries. Against Model/Sizing.v (structured scenarios evaluated in
// Coq) and against the bloom library's own arithmetic and statistics (volumes).

import (
	"bytes"
	"context"
	"encoding/json"
	"fmt"
	"math"
	"math/rand/v2"
	"sort"
	"strconv"
	"strings"
	"time"

	"github.com/bits-and-blooms/bloom/v3"
	bs "github.com/danthegoodman1/bloomsearch"
)

func init() { register("c26", []string{"C26"}, runC26) }

const runnerS = "Model.Sizing Cases.RunnerS"

var c26Rates = []float64{0.5, 0.1, 0.01, 0.001}

type c26Env struct {
	c  *Ctx
	sh *shard
}

func runC26(c *Ctx) {
	c.rep.Rule = "one evaluation = one written filter (file level or block level; field, token or field::token) read back from the " +
		"store bytes (ReadFileMetadata / ReadDataBlockBloomFilters) and compared with bloom.EstimateParameters(max(n,1), configured rate), " +
		"n = distinct entries of the rows the filter covers (rows read back with ReadDataBlockRowData, entries by bloomEntrySets.indexRow); " +
		"recorded BloomEntryCounts = n; every entry tests positive; for n >= 1000 bit occupancy and the measured false-positive fraction over " +
		">= 20k absent probes must lie inside the occupancy/binomial tolerance (failure probability of a correct filter < 1e-9). " +
		"Structured scenarios (1-3 flushes, optional merge by a second engine with another rate and tighter row-group limits, optional second merge) " +
		"are also evaluated in Coq against flush_file/merge_file. Non-trivial: n >= 2 and the covered rows repeat entries (total != distinct) and " +
		"row count != n, so that sizing from rows or from non-deduplicated counts would differ. Distinct by scenario, file, block, class."
	e := &c26Env{c: c}
	e.sh = c.newShard("s", runnerS, "caseS", "mismatches", "violations")
	e.sh.limit = 60

	// (a) structured scenarios, evaluated in Coq too
	for i := 0; i < c.pick(110, 900); i++ {
		e.sub(func() { e.scenario(i) })
	}
	// (b) volumes: entry counts from 1 to tens (quick) / hundreds (thorough) of thousands, rates across (0,1)
	vols := []int{1, 60, 3000, 50000}
	rates := c26Rates
	if c.thorough() {
		vols = []int{1, 2, 5, 20, 100, 600, 3000, 20000, 100000, 350000}
		rates = []float64{0.5, 0.3, 0.1, 0.03, 0.01, 0.001, 0.0001, 0.9, 0.7}
		for i := 0; i < 3; i++ {
			rates = append(rates, 0.0005+c.rng.Float64()*0.6)
		}
	}
	for vi, v := range vols {
		for ri, p := range rates {
			e.sub(func() { e.volume(vi*100+ri, v, p) })
		}
	}
	// a very small rate at volume: the largest filters of the quick tier (about 1.2 Mbit)
	e.sub(func() { e.volume(9000, 50000, 0.00001) })
	e.emptySets()
	// (c) many tiny filters: the mean rate over a few hundred block filters holding 1..3 entries
	for i, cfg := range []struct {
		n int
		p float64
	}{{1, 0.001}, {3, 0.001}, {1, 0.01}} {
		e.sub(func() { e.tinyAggregate(i, cfg.n, cfg.p) })
	}
	// (d) buildSizedBloomFilter alone: exhaustive small n, random large n, random rates
	e.componentSweep()
}

// sub runs f on a sub-stream seeded from c.rng. The engine iterates Go maps (flush and merge
// block order), so the number of draws inside one scenario is not a function of the seed;
// with a stream per scenario the following scenarios still are.
func (e *c26Env) sub(f func()) {
	c := e.c
	old := c.rng
	c.rng = rand.New(rand.NewPCG(old.Uint64(), old.Uint64()))
	defer func() { c.rng = old }()
	f()
}

// ---------------------------------------------------------------- one filter set

type filterCtx struct {
	scen      string
	where     string // "file <ptr>" or "file <ptr> block <i>"
	kind      string // flush | merge-merged | merge-copied | merge-file
	builtRate float64
}

// checkFilterSet judges the three filters of a file or a block against the rows they cover.
// It returns the (rate, n) pairs whose EstimateParameters values the Coq side needs.
func (e *c26Env) checkFilterSet(fc filterCtx, fs obsFilterSet, rows []rowEnt, stat bool) [][2]int64 {
	c := e.c
	var need [][2]int64
	if fs.rate != fc.builtRate {
		c.violation("c26-rate", fmt.Sprintf("%s %s: recorded BloomFalsePositiveRate %v, the engine that built it was configured with %v", fc.scen, fc.where, fs.rate, fc.builtRate), nil)
		need = append(need, [2]int64{rateBits(fs.rate), 0})
	}
	cnt := countsTriple(fs.counts)
	for cl := 0; cl < 3; cl++ {
		n := distinctOfRows(rows, cl)
		total := 0
		for _, r := range rows {
			total += len(r.class(cl))
		}
		sizedFor := uint(max(n, 1))
		need = append(need, [2]int64{rateBits(fc.builtRate), int64(sizedFor)})
		if fs.rate != fc.builtRate {
			need = append(need, [2]int64{rateBits(fs.rate), int64(sizedFor)})
		}
		mExp, kExp := bloom.EstimateParameters(sizedFor, fc.builtRate)
		desc := map[string]any{"scenario": fc.scen, "where": fc.where, "kind": fc.kind, "class": classNames[cl], "rows": len(rows),
			"entries_with_repeats": total, "distinct_entries": n, "rate": fc.builtRate, "expected_cap": mExp, "expected_k": kExp, "recorded_count": cnt[cl]}
		key := fmt.Sprintf("%s|%s|%d", fc.scen, fc.where, cl)
		c.count([]string{"C26"}, key, n >= 2 && total != n && len(rows) != n, desc)
		c.dist("filter_kind", fc.kind+"/"+classNames[cl])
		c.dist("distinct_entries", magnitude(n))
		f := fs.filters[cl]
		if f == nil {
			c.violation("c26-missing-filter", fmt.Sprintf("%s %s: %s filter absent from a written file", fc.scen, fc.where, classNames[cl]), desc)
			continue
		}
		desc["cap"], desc["k"] = f.Cap(), f.K()
		if f.Cap() != mExp || f.K() != kExp {
			c.violation("c26-capk", fmt.Sprintf("%s %s: %s filter has Cap=%d K=%d; EstimateParameters(max(%d,1), %v) = (%d, %d)%s",
				fc.scen, fc.where, classNames[cl], f.Cap(), f.K(), n, fc.builtRate, mExp, kExp, guessSizing(f, fc.builtRate, len(rows), total, n)), desc)
		}
		if cnt[cl] != n {
			c.violation("c26-count", fmt.Sprintf("%s %s: recorded %s count %d, the covered rows have %d distinct entries", fc.scen, fc.where, classNames[cl], cnt[cl], n), desc)
		}
		missing := 0
		for _, r := range rows {
			for _, s := range r.class(cl) {
				if !f.TestString(s) {
					missing++
				}
			}
		}
		if missing > 0 {
			c.violation("c26-missing-entry", fmt.Sprintf("%s %s: %d %s entries of the covered rows test negative", fc.scen, fc.where, missing, classNames[cl]), desc)
		}
		// "receives exactly those entries", bit for bit: a filter with the same parameters that is given the
		// covered rows' entries and nothing else has the same bits (insertion is deterministic); a bit set
		// beyond them was set by something that is not an entry of this filter
		if missing == 0 && f.Cap() == mExp && f.K() == kExp {
			ref := bloom.New(f.Cap(), f.K())
			for _, r := range rows {
				for _, s := range r.class(cl) {
					ref.AddString(s)
				}
			}
			if !ref.Equal(f) {
				extra := f.BitSet().Count() - ref.BitSet().Count()
				c.violation("c26-foreign-bits", fmt.Sprintf("%s %s: the %s filter (Cap=%d) has %d set bits that none of its %d entries sets", fc.scen, fc.where, classNames[cl], f.Cap(), extra, n), desc)
			}
		}
		if stat && n >= statMinN {
			e.statCheck(fc, classNames[cl], f, uint(n), mExp, kExp, desc)
		}
	}
	return need
}

// guessSizing names the wrong quantity a filter seems to have been sized from (for the report only).
func guessSizing(f *bloom.BloomFilter, p float64, rows, total, n int) string {
	for _, g := range []struct {
		name string
		n    int
	}{{"the row count", rows}, {"the non-deduplicated entry count", total}, {"half the distinct count", n / 2}, {"twice the distinct count", 2 * n}} {
		if g.n >= 1 && g.n != n {
			if m, k := bloom.EstimateParameters(uint(g.n), p); m == f.Cap() && k == f.K() {
				return fmt.Sprintf(" — that is the size for %s (%d)", g.name, g.n)
			}
		}
	}
	return ""
}

func magnitude(n int) string {
	switch {
	case n == 0:
		return "0"
	case n == 1:
		return "1"
	case n < 10:
		return "2-9"
	case n < 100:
		return "10-99"
	case n < 1000:
		return "100-999"
	case n < 10000:
		return "1e3-1e4"
	case n < 100000:
		return "1e4-1e5"
	}
	return ">=1e5"
}

// absent probes: no generated entry starts with a zero byte
func probeFilter(f *bloom.BloomFilter, tag uint64, N int) int {
	buf := make([]byte, 0, 48)
	pos := 0
	for i := 0; i < N; i++ {
		buf = append(buf[:0], 0, 'a', 'b', 's', 'e', 'n', 't', '/')
		buf = strconv.AppendUint(buf, tag, 36)
		buf = append(buf, '/')
		buf = strconv.AppendInt(buf, int64(i), 10)
		if f.Test(buf) {
			pos++
		}
	}
	return pos
}

// statCheck judges occupancy and measured rate against what a filter with the expected (m, k)
// holding exactly n entries shows. It does not rely on Cap/K having been found right: a
// filter of another size is judged by its fill fraction and by its measured rate alone.
func (e *c26Env) statCheck(fc filterCtx, class string, f *bloom.BloomFilter, n uint, mExp, kExp uint, desc map[string]any) {
	c := e.c
	p := fc.builtRate
	N := probeCount(p)
	b := rateTolerance(n, mExp, kExp, N)
	X := float64(f.BitSet().Count()) * float64(mExp) / float64(f.Cap()) // fill fraction, on the expected scale
	pos := probeFilter(f, c.rng.Uint64(), N)
	desc["set_bits"], desc["set_bits_tolerance"] = X, [2]float64{b.XLo, b.XHi}
	desc["probes"], desc["positives"], desc["positives_tolerance"] = N, pos, [2]float64{b.PosLo, b.PosHi}
	desc["measured_over_p"], desc["ideal_rate_over_p"] = float64(pos)/float64(N)/p, b.QTh/p
	c.dist("measured_rate", "checked/"+class)
	c.dist("rate_over_p", fmt.Sprintf("%.1f", float64(pos)/float64(N)/p))
	if X < b.XLo || X > b.XHi {
		c.violation("c26-occupancy", fmt.Sprintf("%s %s: %s filter (n=%d, p=%v, Cap=%d, K=%d) has %.4f of its bits set; a filter with the expected m=%d, k=%d that received exactly its %d distinct entries has %.4f..%.4f",
			fc.scen, fc.where, class, n, p, f.Cap(), f.K(), X/float64(mExp), mExp, kExp, n, b.XLo/float64(mExp), b.XHi/float64(mExp)), desc)
	}
	if float64(pos) < b.PosLo || float64(pos) > b.PosHi {
		c.violation("c26-rate-measured", fmt.Sprintf("%s %s: %s filter (n=%d, p=%v): %d of %d absent probes positive (%.3g = %.2f p); tolerance %.0f..%.0f",
			fc.scen, fc.where, class, n, p, pos, N, float64(pos)/float64(N), float64(pos)/float64(N)/p, b.PosLo, b.PosHi), desc)
	}
	if r := b.QTh / p; r < kSlackLo || r > kSlackHi {
		c.violation("c26-analytic", fmt.Sprintf("%s %s: EstimateParameters(%d, %v) = (m=%d, k=%d) has ideal-hash rate %.4g = %.3f p, outside the k-rounding slack [%.2f, %.2f]",
			fc.scen, fc.where, n, p, mExp, kExp, b.QTh, r, kSlackLo, kSlackHi), desc)
	}
}

// ---------------------------------------------------------------- engines and bookkeeping

type slRow struct {
	id    int
	part  string
	row   map[string]any
	bytes []byte
	ent   rowEnt
}

type knownBlock struct {
	rate float64
	rows []*slRow
}

type knownFile struct {
	pointer string
	blocks  []knownBlock
}

type c26World struct {
	ctx     context.Context
	meta    *bs.MemoryMetaStore
	store   *memDataStore
	tok     bs.ValueTokenizerFunc
	usePart bool
	known   map[string]*knownFile
	where   map[int][2]any // row id -> (pointer, block index)
	rows    map[int]*slRow
	nextID  int
}

func c26Config(p float64, tok bs.ValueTokenizerFunc, usePart bool, comp bs.CompressionType) bs.BloomSearchEngineConfig {
	cfg := bs.DefaultBloomSearchEngineConfig()
	cfg.BloomFalsePositiveRate = p
	cfg.Tokenizer = tok
	if usePart {
		cfg.PartitionFunc = func(row map[string]any) string {
			s, _ := row["p"].(string)
			return s
		}
	}
	cfg.MaxRowGroupRows = 1 << 24
	cfg.MaxRowGroupBytes = 1 << 40
	cfg.MaxBufferedRows = 1 << 24
	cfg.MaxBufferedBytes = 1 << 40
	cfg.MaxBufferedTime = time.Hour
	cfg.RowDataCompression = comp
	return cfg
}

func (w *c26World) addRow(row map[string]any) *slRow {
	row["id"] = w.nextID
	r := &slRow{id: w.nextID, row: row}
	w.nextID++
	if w.usePart {
		r.part, _ = row["p"].(string)
	}
	var err error
	r.bytes, err = json.Marshal(row)
	must(err)
	r.ent = entriesOf(r.bytes, w.tok)
	w.rows[r.id] = r
	return r
}

func (w *c26World) newPointers() []string {
	var out []string
	for _, p := range listPointers(w.ctx, w.meta) {
		if w.known[p] == nil {
			out = append(out, p)
		}
	}
	return out
}

func entsOf(rows []*slRow) []rowEnt {
	out := make([]rowEnt, len(rows))
	for i, r := range rows {
		out[i] = r.ent
	}
	return out
}

// flushAndCheck ingests rows through eng (batched), flushes, and judges the file that appears.
// coq: also emit a CFlush case.
func (e *c26Env) flushAndCheck(w *c26World, eng *bs.BloomSearchEngine, p float64, scen string, rows []*slRow, coq bool, stat bool) {
	c := e.c
	for i := 0; i < len(rows); {
		n := 1 + c.intn(64)
		if i+n > len(rows) {
			n = len(rows) - i
		}
		batch := make([]map[string]any, n)
		for j := range batch {
			batch[j] = rows[i+j].row
		}
		done := make(chan error, 1)
		must(eng.IngestRows(w.ctx, batch, done))
		i += n
	}
	must(eng.Flush(w.ctx))
	ptrs := w.newPointers()
	if len(ptrs) != 1 {
		c.mismatch("c26-flush-files", fmt.Sprintf("%s: one Flush of %d rows produced %d files", scen, len(rows), len(ptrs)), nil)
		return
	}
	of, err := readFileBack(w.ctx, w.store, []byte(ptrs[0]))
	if err != nil {
		c.violation("c26-unreadable", fmt.Sprintf("%s: flushed file cannot be read back: %v", scen, err), nil)
		return
	}
	parts := map[string][]*slRow{}
	for _, r := range rows {
		parts[r.part] = append(parts[r.part], r)
	}
	kf := &knownFile{pointer: ptrs[0]}
	w.known[ptrs[0]] = kf
	var need [][2]int64
	var partTerms, blockTerms []string
	if len(of.blocks) != len(parts) {
		c.mismatch("c26-flush-blocks", fmt.Sprintf("%s: %d partitions ingested, %d blocks written", scen, len(parts), len(of.blocks)), nil)
		return
	}
	for bi, ob := range of.blocks {
		prows := parts[ob.meta.PartitionID]
		if len(prows) != len(ob.rowBytes) {
			c.mismatch("c26-flush-rows", fmt.Sprintf("%s: block %d (partition %q) holds %d rows, %d were ingested", scen, bi, ob.meta.PartitionID, len(ob.rowBytes), len(prows)), nil)
			return
		}
		for i := range prows {
			if !bytes.Equal(prows[i].bytes, ob.rowBytes[i]) {
				c.mismatch("c26-flush-rows", fmt.Sprintf("%s: block %d row %d differs from what was ingested", scen, bi, i), nil)
				return
			}
			w.where[prows[i].id] = [2]any{ptrs[0], bi}
		}
		kf.blocks = append(kf.blocks, knownBlock{rate: p, rows: prows})
		need = append(need, e.checkFilterSet(filterCtx{scen, fmt.Sprintf("file %s block %d", ptrs[0], bi), "flush", p}, ob.obsFilterSet, entsOf(prows), stat)...)
		if coq {
			rt := make([]string, len(prows))
			for i, r := range prows {
				rt[i] = c.coqRowEnt(r.ent, 0.2)
			}
			partTerms = append(partTerms, coqList(rt))
			blockTerms = append(blockTerms, coqObsBlock(ob))
		}
	}
	need = append(need, e.checkFilterSet(filterCtx{scen, "file " + ptrs[0], "flush", p}, of.obsFilterSet, entsOf(rows), stat)...)
	if coq {
		term := fmt.Sprintf("CFlush %s %s %s %s", coqZ(rateBits(p)), coqList(partTerms), coqEstTable(need), coqObsFile(of, blockTerms))
		e.sh.add(c, term, map[string]any{"kind": "flush", "scenario": scen, "file": ptrs[0], "rate": p, "rows": len(rows), "blocks": len(of.blocks),
			"file_counts": of.counts, "file_caps": capsOf(of.filters)})
		e.distinctCases(scen, rows)
	}
}

func capsOf(fs [3]*bloom.BloomFilter) [3][2]uint {
	var out [3][2]uint
	for i, f := range fs {
		if f != nil {
			out[i] = [2]uint{f.Cap(), f.K()}
		}
	}
	return out
}

func coqObsBlock(ob obsBlock) string {
	return fmt.Sprintf("{| ob_rate := %s; ob_counts := %s; ob_caps := %s |}", coqZ(rateBits(ob.rate)), coqCounts(ob.counts), coqCaps(ob.filters))
}

func coqObsFile(of *obsFile, blockTerms []string) string {
	return fmt.Sprintf("{| of_rate := %s; of_counts := %s; of_caps := %s; of_blocks := %s |}", coqZ(rateBits(of.rate)), coqCounts(of.counts), coqCaps(of.filters), coqList(blockTerms))
}

// the oracle table: the bloom library's EstimateParameters on exactly the (rate, n) pairs of the case
func coqEstTable(need [][2]int64) string {
	seen := map[[2]int64]bool{}
	var items []string
	for _, rn := range need {
		if rn[1] <= 0 || seen[rn] {
			continue
		}
		seen[rn] = true
		m, k := bloom.EstimateParameters(uint(rn[1]), float64frombits(rn[0]))
		items = append(items, coqPair(coqPair(coqZ(rn[0]), coqZ(rn[1])), coqPair(coqZ(int64(m)), coqZ(int64(k)))))
	}
	return coqList(items)
}

// distinctCases ties the harness's own distinct count to the model's, class by class.
func (e *c26Env) distinctCases(scen string, rows []*slRow) {
	for cl := 0; cl < 3; cl++ {
		var all []string
		for _, r := range rows {
			all = append(all, r.ent.class(cl)...)
		}
		if len(all) > 600 {
			continue
		}
		e.c.rng.Shuffle(len(all), func(i, j int) { all[i], all[j] = all[j], all[i] })
		e.sh.add(e.c, fmt.Sprintf("CDistinct %s %d", coqStrList(all), goDistinct(all)),
			map[string]any{"kind": "distinct", "scenario": scen, "class": classNames[cl], "entries": len(all), "distinct": goDistinct(all)})
	}
}

// mergeAndCheck runs Merge on a fresh engine over the same stores and judges every file that appears.
func (e *c26Env) mergeAndCheck(w *c26World, cfg bs.BloomSearchEngineConfig, scen string, coq bool, stat bool) int {
	c := e.c
	p := cfg.BloomFalsePositiveRate
	eng, err := bs.NewBloomSearchEngine(cfg, w.meta, w.store)
	must(err)
	if _, err := eng.Merge(w.ctx); err != nil {
		c.mismatch("c26-merge-error", fmt.Sprintf("%s: Merge failed on healthy stores: %v", scen, err), nil)
		return 0
	}
	live := map[string]bool{}
	for _, ptr := range listPointers(w.ctx, w.meta) {
		live[ptr] = true
	}
	ptrs := w.newPointers()
	for _, ptr := range ptrs {
		of, err := readFileBack(w.ctx, w.store, []byte(ptr))
		if err != nil {
			c.violation("c26-unreadable", fmt.Sprintf("%s: merged file cannot be read back: %v", scen, err), nil)
			continue
		}
		kf := &knownFile{pointer: ptr}
		var need [][2]int64
		var groupTerms, blockTerms []string
		var allRows []*slRow
		ok := true
		type srcRef struct {
			ptr string
			bi  int
		}
		var newWhere []struct {
			id int
			bi int
		}
		for bi, ob := range of.blocks {
			var rows []*slRow
			var srcs []srcRef
			seen := map[srcRef]bool{}
			for _, rb := range ob.rowBytes {
				r := w.rows[slRowID(rb)]
				if r == nil || !bytes.Equal(r.bytes, rb) {
					c.mismatch("c26-merge-rows", fmt.Sprintf("%s: merged file %s block %d holds a row that was never ingested", scen, ptr, bi), nil)
					ok = false
					break
				}
				rows = append(rows, r)
				wh := w.where[r.id]
				s := srcRef{wh[0].(string), wh[1].(int)}
				if !seen[s] {
					seen[s] = true
					srcs = append(srcs, s)
				}
			}
			if !ok {
				break
			}
			srcRows := 0
			for _, s := range srcs {
				srcRows += len(w.known[s.ptr].blocks[s.bi].rows)
			}
			if srcRows != len(rows) {
				c.mismatch("c26-merge-regroup", fmt.Sprintf("%s: merged file %s block %d holds %d rows, its %d source blocks hold %d", scen, ptr, bi, len(rows), len(srcs), srcRows), nil)
				ok = false
				break
			}
			kind, rate := "merge-merged", p
			var gterm string
			if len(srcs) == 1 {
				src := w.known[srcs[0].ptr].blocks[srcs[0].bi]
				kind, rate = "merge-copied", src.rate
				if coq {
					gterm = fmt.Sprintf("KCopy %s %s", coqZ(rateBits(src.rate)), e.coqRows(src.rows))
				}
			} else if coq {
				items := make([]string, len(srcs))
				for i, s := range srcs {
					src := w.known[s.ptr].blocks[s.bi]
					items[i] = coqPair(coqZ(rateBits(src.rate)), e.coqRows(src.rows))
				}
				gterm = "KMerge " + coqList(items)
			}
			c.dist("merge_output_block", kind)
			kf.blocks = append(kf.blocks, knownBlock{rate: rate, rows: rows})
			need = append(need, e.checkFilterSet(filterCtx{scen, fmt.Sprintf("file %s block %d", ptr, bi), kind, rate}, ob.obsFilterSet, entsOf(rows), stat)...)
			allRows = append(allRows, rows...)
			for _, r := range rows {
				newWhere = append(newWhere, struct {
					id int
					bi int
				}{r.id, bi})
			}
			if coq {
				groupTerms = append(groupTerms, "("+gterm+")")
				blockTerms = append(blockTerms, coqObsBlock(ob))
			}
		}
		if !ok {
			continue
		}
		need = append(need, e.checkFilterSet(filterCtx{scen, "file " + ptr, "merge-file", p}, of.obsFilterSet, entsOf(allRows), stat)...)
		if coq {
			term := fmt.Sprintf("CMerge %s %s %s %s", coqZ(rateBits(p)), coqList(groupTerms), coqEstTable(need), coqObsFile(of, blockTerms))
			e.sh.add(c, term, map[string]any{"kind": "merge", "scenario": scen, "file": ptr, "rate": p, "rows": len(allRows), "blocks": len(of.blocks),
				"file_counts": of.counts, "file_caps": capsOf(of.filters)})
		}
		w.known[ptr] = kf
		for _, nw := range newWhere {
			w.where[nw.id] = [2]any{ptr, nw.bi}
		}
	}
	// files the merge consumed are no longer part of the store
	for ptr := range w.known {
		if !live[ptr] {
			delete(w.known, ptr)
		}
	}
	return len(ptrs)
}

func (e *c26Env) coqRows(rows []*slRow) string {
	rt := make([]string, len(rows))
	for i, r := range rows {
		rt[i] = e.c.coqRowEnt(r.ent, 0.2)
	}
	return coqList(rt)
}

func newC26World(tok bs.ValueTokenizerFunc, usePart bool) *c26World {
	return &c26World{ctx: context.Background(), meta: bs.NewMemoryMetaStore(), store: newMemDataStore(), tok: tok, usePart: usePart,
		known: map[string]*knownFile{}, where: map[int][2]any{}, rows: map[int]*slRow{}}
}

// ---------------------------------------------------------------- (a) structured scenarios

var slWords = []string{"alpha", "Beta", "GAMMA", "delta", "x", "y", "error", "warn", "a-b", "c,d", "42", "7", "true", "naïve", "日本"}
var slFields = []string{"msg", "level", "user", "tags", "n", "a.b", "ok", "meta"}
var slParts = []string{"p0", "p1", "p2"}

func (e *c26Env) genRow(w *c26World) *slRow {
	c := e.c
	phrase := func() string {
		k := c.intn(5)
		s := ""
		for i := 0; i < k; i++ {
			if i > 0 {
				s += " "
			}
			s += slWords[c.intn(len(slWords))]
		}
		return s
	}
	var value func(depth int) any
	value = func(depth int) any {
		switch c.intn(8) {
		case 0:
			return c.intn(50)
		case 1:
			return c.chance(0.5)
		case 2:
			return nil
		case 3:
			if depth < 2 {
				m := map[string]any{}
				for i, k := 0, 1+c.intn(2); i < k; i++ {
					m[slFields[c.intn(len(slFields))]] = value(depth + 1)
				}
				return m
			}
		case 4:
			if depth < 2 {
				arr := make([]any, c.intn(3))
				for i := range arr {
					arr[i] = phrase()
				}
				return arr
			}
		}
		return phrase()
	}
	row := map[string]any{}
	for i, k := 0, 1+c.intn(4); i < k; i++ {
		row[slFields[c.intn(len(slFields))]] = value(0)
	}
	if w.usePart {
		row["p"] = slParts[c.intn(len(slParts))]
	}
	return w.addRow(row)
}

func (e *c26Env) scenario(idx int) {
	c := e.c
	scen := fmt.Sprintf("scenario %d", idx)
	allRates := []float64{0.5, 0.1, 0.01, 0.001, 0.3, 0.05, 0.9, 0.00001}
	p1 := allRates[c.intn(len(allRates))]
	tok, tokName := bs.ValueTokenizerFunc(bs.BasicWhitespaceLowerTokenizer), "default"
	if c.chance(0.4) {
		tok, tokName = slCustomTokenizer, "custom"
	}
	usePart := c.chance(0.7)
	comp := []bs.CompressionType{bs.CompressionNone, bs.CompressionSnappy, bs.CompressionZstd}[c.intn(3)]
	w := newC26World(tok, usePart)
	cfg := c26Config(p1, tok, usePart, comp)
	eng, err := bs.NewBloomSearchEngine(cfg, w.meta, w.store)
	must(err)
	eng.Start()
	nFlush := 1 + c.intn(3)
	for f := 0; f < nFlush; f++ {
		n := 1 + c.intn(12)
		rows := make([]*slRow, n)
		for i := range rows {
			rows[i] = e.genRow(w)
		}
		e.flushAndCheck(w, eng, p1, scen, rows, true, false)
	}
	stopCtx, cancel := context.WithTimeout(w.ctx, 20*time.Second)
	must(eng.Stop(stopCtx))
	cancel()
	merges := 0
	if nFlush >= 2 && c.chance(0.75) {
		for round := 0; round < 2; round++ {
			p2 := p1
			if c.chance(0.6) {
				p2 = allRates[c.intn(len(allRates))]
			}
			cfg2 := c26Config(p2, tok, usePart, comp)
			if c.chance(0.5) {
				cfg2.MaxRowGroupRows = 3 + c.intn(12) // some pairs no longer fit: copied blocks
			}
			made := e.mergeAndCheck(w, cfg2, scen, true, false)
			merges += made
			if made == 0 || !c.chance(0.4) {
				break
			}
			// another flush, so that a second merge has a partner for the merged file
			cfg3 := c26Config(p2, tok, usePart, comp)
			eng3, err := bs.NewBloomSearchEngine(cfg3, w.meta, w.store)
			must(err)
			eng3.Start()
			rows := make([]*slRow, 1+c.intn(6))
			for i := range rows {
				rows[i] = e.genRow(w)
			}
			e.flushAndCheck(w, eng3, p2, scen, rows, true, false)
			stopCtx, cancel := context.WithTimeout(w.ctx, 20*time.Second)
			must(eng3.Stop(stopCtx))
			cancel()
		}
	}
	c.dist("scenario", fmt.Sprintf("tokenizer=%s partition=%v flushes=%d merged_files=%d", tokName, usePart, nFlush, merges))
	c.dist("rate", strconv.FormatFloat(p1, 'g', -1, 64))
}

// ---------------------------------------------------------------- (b) volumes

// volume: two flushes whose vocabularies overlap, then a merge; the token and field::token
// filters cover about T distinct entries at file level.
func (e *c26Env) volume(idx, T int, p float64) {
	c := e.c
	scen := fmt.Sprintf("volume %d (about %d distinct tokens, p=%v)", idx, T, p)
	w := newC26World(bs.BasicWhitespaceLowerTokenizer, true)
	cfg := c26Config(p, w.tok, true, bs.CompressionSnappy)
	eng, err := bs.NewBloomSearchEngine(cfg, w.meta, w.store)
	must(err)
	eng.Start()
	tag := c.rng.Uint64() % 100000
	word := func(i int) string { return fmt.Sprintf("w%d_%d", tag, i) }
	dotted := idx%2 == 1 && T >= 1000 && T <= 20000
	if dotted {
		scen += " with flat dotted keys"
		c.dist("volume_dotted_keys", fmt.Sprintf("T=%d", T))
	}
	mkRows := func(lo, hi int, parts []string) []*slRow {
		var rows []*slRow
		per := 40
		for i := lo; i < hi; i += per {
			var b bytes.Buffer
			for j := i; j < i+per && j < hi; j++ {
				b.WriteString(word(j))
				b.WriteByte(' ')
			}
			for j := 0; j < 10 && hi-lo > 1; j++ { // repeats of words seen elsewhere
				b.WriteString(word(lo + c.intn(hi-lo)))
				b.WriteByte(' ')
			}
			row := map[string]any{"msg": b.String(), "p": parts[len(rows)%len(parts)]}
			if dotted {
				// flat keys that contain the path delimiter: each contributes its delimiter-split prefixes to the
				// field entries as well (three field entries per key, none shared between keys)
				for j := i; j < i+per && j < hi; j++ {
					row[fmt.Sprintf("n%d_%d.d%d.util", tag, j, j)] = j % 7
				}
			}
			rows = append(rows, w.addRow(row))
		}
		return rows
	}
	if T >= 3000 {
		// a flush that fails while a block's row data is being written, before the measured flushes:
		// nothing the failed flush built may leak into the filters of later files
		w.store.mu.Lock()
		w.store.fault = func(kind string, nth int, ptr string) error {
			if kind == "Write" {
				return errInjected
			}
			return nil
		}
		w.store.mu.Unlock()
		var junk []map[string]any
		// the failed flush is larger than any block written afterwards (recycled state, if any, covers them)
		for i := 0; i < T; i += 40 {
			var b bytes.Buffer
			for j := i; j < i+40; j++ {
				fmt.Fprintf(&b, "junk%d_%d ", tag, j)
			}
			junk = append(junk, map[string]any{"msg": b.String(), "p": "A"})
		}
		must(eng.IngestRows(w.ctx, junk, make(chan error, 1)))
		if ferr := eng.Flush(w.ctx); ferr == nil {
			c.mismatch("c26-fault-not-injected", scen+": the flush with a failing Write did not fail", nil)
		}
		w.store.mu.Lock()
		w.store.fault = nil
		w.store.mu.Unlock()
		c.dist("volume_failed_flush_first", "yes")
	}
	if T == 1 {
		// exactly one entry per class: a single row with a single token and no id
		r := &slRow{id: w.nextID, part: "A", row: map[string]any{"p": "A"}}
		w.nextID++
		r.bytes, _ = json.Marshal(r.row)
		r.ent = entriesOf(r.bytes, w.tok)
		w.rows[r.id] = r
		e.flushAndCheckNoID(w, eng, p, scen, r)
	} else {
		e.flushAndCheck(w, eng, p, scen, mkRows(0, T*7/10, []string{"A", "A", "B", "C"}), false, true)
		e.flushAndCheck(w, eng, p, scen, mkRows(T*4/10, T, []string{"A", "B"}), false, true)
	}
	stopCtx, cancel := context.WithTimeout(w.ctx, 60*time.Second)
	must(eng.Stop(stopCtx))
	cancel()
	if T > 1 {
		p2 := p
		if idx%3 == 1 {
			p2 = c26Rates[(idx/3)%len(c26Rates)]
		}
		e.mergeAndCheck(w, c26Config(p2, w.tok, true, bs.CompressionSnappy), scen, false, true)
	}
	c.dist("volume", fmt.Sprintf("T=%d", T))
	c.dist("rate", strconv.FormatFloat(p, 'g', -1, 64))
}

// flushAndCheckNoID: the n = 1 volume (the row has no id field, so it cannot go through the merge bookkeeping).
func (e *c26Env) flushAndCheckNoID(w *c26World, eng *bs.BloomSearchEngine, p float64, scen string, r *slRow) {
	c := e.c
	must(eng.IngestRows(w.ctx, []map[string]any{r.row}, nil))
	must(eng.Flush(w.ctx))
	ptrs := w.newPointers()
	if len(ptrs) != 1 {
		c.mismatch("c26-flush-files", fmt.Sprintf("%s: one Flush produced %d files", scen, len(ptrs)), nil)
		return
	}
	of, err := readFileBack(w.ctx, w.store, []byte(ptrs[0]))
	if err != nil || len(of.blocks) != 1 {
		c.violation("c26-unreadable", fmt.Sprintf("%s: flushed file cannot be read back: %v", scen, err), nil)
		return
	}
	w.known[ptrs[0]] = &knownFile{pointer: ptrs[0]}
	e.checkFilterSet(filterCtx{scen, "file " + ptrs[0] + " block 0", "flush", p}, of.blocks[0].obsFilterSet, []rowEnt{r.ent}, false)
	e.checkFilterSet(filterCtx{scen, "file " + ptrs[0], "flush", p}, of.obsFilterSet, []rowEnt{r.ent}, false)
}

// emptySets: rows whose only leaf is an empty string or null have no tokens: the token and
// field::token sets are empty, the filters are sized for max(0, 1) = 1 and hold nothing.
func (e *c26Env) emptySets() {
	c := e.c
	for i, p := range c26Rates {
		scen := fmt.Sprintf("empty-sets %d (p=%v)", i, p)
		w := newC26World(bs.BasicWhitespaceLowerTokenizer, false)
		eng, err := bs.NewBloomSearchEngine(c26Config(p, w.tok, false, bs.CompressionNone), w.meta, w.store)
		must(err)
		eng.Start()
		r := &slRow{id: 0, row: map[string]any{"k": "", "z": nil}}
		r.bytes, _ = json.Marshal(r.row)
		r.ent = entriesOf(r.bytes, w.tok)
		w.rows[0] = r
		e.flushAndCheckNoID(w, eng, p, scen, r)
		stopCtx, cancel := context.WithTimeout(w.ctx, 20*time.Second)
		must(eng.Stop(stopCtx))
		cancel()
		if len(r.ent.t) != 0 {
			c.mismatch("c26-empty", scen+": the row was expected to have no tokens", r.ent.t)
		}
	}
}

// ---------------------------------------------------------------- (c) tiny filters in aggregate

// tinyAggregate: R blocks, each holding n distinct tokens; mean measured rate of the R token filters.
// A single tiny filter's rate is dominated by chance (how many of its few bits the entries set);
// the mean over a few hundred is not.
func (e *c26Env) tinyAggregate(idx, n int, p float64) {
	c := e.c
	R := 400
	scen := fmt.Sprintf("tiny %d (n=%d per block, p=%v, %d blocks)", idx, n, p, R)
	w := newC26World(bs.BasicWhitespaceLowerTokenizer, true)
	cfg := c26Config(p, w.tok, true, bs.CompressionNone)
	cfg.PartitionFunc = func(row map[string]any) string { // one partition (hence one block) per row: its first word
		s, _ := row["m"].(string)
		if i := strings.IndexByte(s, ' '); i >= 0 {
			return s[:i]
		}
		return s
	}
	eng, err := bs.NewBloomSearchEngine(cfg, w.meta, w.store)
	must(err)
	eng.Start()
	tag := c.rng.Uint64() % 100000
	batch := make([]map[string]any, R)
	for i := range batch {
		s := ""
		for j := 0; j < n; j++ {
			s += fmt.Sprintf("t%d_%d_%d ", tag, i, j)
		}
		batch[i] = map[string]any{"m": s} // the only leaf: exactly n tokens, one field, n field::token pairs
	}
	must(eng.IngestRows(w.ctx, batch, nil))
	must(eng.Flush(w.ctx))
	stopCtx, cancel := context.WithTimeout(w.ctx, 60*time.Second)
	must(eng.Stop(stopCtx))
	cancel()
	ptrs := w.newPointers()
	if len(ptrs) != 1 {
		c.mismatch("c26-flush-files", fmt.Sprintf("%s: %d files", scen, len(ptrs)), nil)
		return
	}
	of, err := readFileBack(w.ctx, w.store, []byte(ptrs[0]))
	must(err)
	N := 20000
	sum, used := 0.0, 0
	maxR := 0.0
	for bi, ob := range of.blocks {
		ent := entriesOf(ob.rowBytes[0], w.tok)
		e.checkFilterSet(filterCtx{scen, fmt.Sprintf("file %s block %d", ptrs[0], bi), "flush", p}, ob.obsFilterSet, []rowEnt{ent}, false)
		f := ob.filters[1]
		if f == nil {
			continue
		}
		r := float64(probeFilter(f, c.rng.Uint64(), N)) / float64(N)
		sum += r
		used++
		if r > maxR {
			maxR = r
		}
	}
	if used == 0 {
		return
	}
	mean := sum / float64(used)
	nTok := len(entriesOf(of.blocks[0].rowBytes[0], w.tok).t)
	desc := map[string]any{"scenario": scen, "blocks": used, "tokens_per_block": nTok, "rate": p, "probes_per_filter": N,
		"mean_measured_over_p": mean / p, "max_measured_over_p": maxR / p}
	c.dist("tiny_mean_rate_over_p", fmt.Sprintf("n=%d p=%v: %.1f", nTok, p, mean/p))
	c.rep.Notes = append(c.rep.Notes, fmt.Sprintf("%s: mean measured rate of the token filters = %.2f p (max %.1f p)", scen, mean/p, maxR/p))
	if mean > 2*p {
		c.violation("tiny-filter-rate", fmt.Sprintf("%s: the %d token filters (each sized exactly as designed for its %d entries) report absent probes as present at a mean rate of %.2f x the configured %v",
			scen, used, nTok, mean/p, p), desc)
	}
}

// ---------------------------------------------------------------- (d) buildSizedBloomFilter alone

func (e *c26Env) componentSweep() {
	c := e.c
	check := func(n int, p float64, dupFactor int) {
		entries := make([]string, 0, n*dupFactor)
		for i := 0; i < n; i++ {
			for d := 0; d < dupFactor; d++ {
				entries = append(entries, "e"+strconv.Itoa(i))
			}
		}
		f := bs.VerifBuildSizedBloomFilter(entries, p)
		m, k := bloom.EstimateParameters(uint(max(n, 1)), p)
		key := fmt.Sprintf("component|%d|%v|%d", n, p, dupFactor)
		desc := map[string]any{"kind": "buildSizedBloomFilter", "distinct_entries": n, "entries_with_repeats": n * dupFactor, "rate": p, "cap": f.Cap(), "k": f.K(), "expected_cap": m, "expected_k": k}
		c.count([]string{"C26"}, key, n >= 2 && dupFactor > 1, desc)
		c.dist("filter_kind", "component")
		if f.Cap() != m || f.K() != k {
			c.violation("c26-capk", fmt.Sprintf("buildSizedBloomFilter(%d distinct entries, each %d times, p=%v): Cap=%d K=%d, EstimateParameters gives (%d, %d)", n, dupFactor, p, f.Cap(), f.K(), m, k), desc)
		}
	}
	ps := append([]float64{}, c26Rates...)
	ps = append(ps, 0.999, 1e-9, 0.25)
	for n := 0; n <= c.pick(40, 300); n++ {
		for _, p := range ps {
			check(n, p, 1+n%3)
		}
	}
	for i := 0; i < c.pick(30, 300); i++ {
		n := 1 + c.intn(c.pick(60000, 400000))
		check(n, 0.0001+c.rng.Float64()*0.99, 1+c.intn(2))
	}
}

func float64frombits(b int64) float64 { return math.Float64frombits(uint64(b)) }

func sortedInts(m map[int]bool) []int {
	out := make([]int, 0, len(m))
	for k := range m {
		out = append(out, k)
	}
	sort.Ints(out)
	return out
}
