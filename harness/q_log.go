package main

// Family Q shared infrastructure: the event log fed by the verif hooks (one
// total order, goroutine id attached), and a manager for the verifPause points.

import (
	"sync"
	"time"

	bs "github.com/danthegoodman1/bloomsearch"
)

type qEvent struct {
	Seq  int
	Kind string
	A, B int64
	S    string
	Gid  int64
}

// qLog collects hook events. The sink runs under the hook mutex, so appends are
// already serialised; the extra mutex protects readers.
type qLog struct {
	mu  sync.Mutex
	evs []qEvent
	// onEvent, when set, runs inside the sink (under the hook mutex) after the
	// event was appended; it may append further harness events with addLocked.
	onEvent func(l *qLog, e qEvent)
}

func (l *qLog) sink(e bs.VerifEvent) {
	l.mu.Lock()
	ev := qEvent{Seq: len(l.evs), Kind: e.Kind, A: e.A, B: e.B, S: e.S, Gid: curGoroutineID()}
	l.evs = append(l.evs, ev)
	f := l.onEvent
	l.mu.Unlock()
	if f != nil {
		f(l, ev)
	}
}

// addLocked appends a harness event from inside the sink callback (the hook
// mutex is held by the caller's goroutine, so the position is exact).
func (l *qLog) addLocked(kind string, a, b int64) {
	l.mu.Lock()
	l.evs = append(l.evs, qEvent{Seq: len(l.evs), Kind: kind, A: a, B: b, Gid: curGoroutineID()})
	l.mu.Unlock()
}

func (l *qLog) len() int {
	l.mu.Lock()
	defer l.mu.Unlock()
	return len(l.evs)
}

func (l *qLog) snapshot() []qEvent {
	l.mu.Lock()
	defer l.mu.Unlock()
	return append([]qEvent(nil), l.evs...)
}

func installLog() *qLog {
	l := &qLog{}
	bs.VerifSetSink(l.sink)
	return l
}

func removeLog() {
	bs.VerifSetSink(nil)
	bs.VerifSetPause(nil)
}

// pauser parks goroutines at verifPause points the scenario wants to hold.
type pauser struct {
	mu     sync.Mutex
	hold   func(point string, id int64) bool
	parked []*parkedG
	notify chan *parkedG
}

type parkedG struct {
	point   string
	id      int64
	gid     int64
	release chan struct{}
}

func installPauser() *pauser {
	p := &pauser{notify: make(chan *parkedG, 64)}
	bs.VerifSetPause(func(point string, id int64) {
		p.mu.Lock()
		h := p.hold
		if h == nil || !h(point, id) {
			p.mu.Unlock()
			return
		}
		g := &parkedG{point: point, id: id, gid: curGoroutineID(), release: make(chan struct{})}
		p.parked = append(p.parked, g)
		p.mu.Unlock()
		select {
		case p.notify <- g:
		default:
		}
		<-g.release
	})
	return p
}

func (p *pauser) setHold(h func(point string, id int64) bool) {
	p.mu.Lock()
	p.hold = h
	p.mu.Unlock()
}

// releaseOne releases the i-th parked goroutine (if any) and reports whether it did.
func (p *pauser) releaseAt(i int) bool {
	p.mu.Lock()
	if i < 0 || i >= len(p.parked) {
		p.mu.Unlock()
		return false
	}
	g := p.parked[i]
	p.parked = append(p.parked[:i], p.parked[i+1:]...)
	p.mu.Unlock()
	close(g.release)
	return true
}

func (p *pauser) releaseAll() {
	p.mu.Lock()
	gs := p.parked
	p.parked = nil
	p.hold = nil
	p.mu.Unlock()
	for _, g := range gs {
		close(g.release)
	}
}

func (p *pauser) parkedCount() int {
	p.mu.Lock()
	defer p.mu.Unlock()
	return len(p.parked)
}

func (p *pauser) parkedPoints() []string {
	p.mu.Lock()
	defer p.mu.Unlock()
	out := make([]string, len(p.parked))
	for i, g := range p.parked {
		out[i] = g.point
	}
	return out
}

// waitParked waits until a goroutine parks at point (true) or the timeout passes.
func (p *pauser) waitParked(point string, timeout time.Duration) bool {
	deadline := time.Now().Add(timeout)
	for {
		p.mu.Lock()
		for _, g := range p.parked {
			if g.point == point {
				p.mu.Unlock()
				return true
			}
		}
		p.mu.Unlock()
		if time.Now().After(deadline) {
			return false
		}
		time.Sleep(50 * time.Microsecond)
	}
}

// actor is a goroutine that runs one command at a time.
type actor struct {
	cmd  chan func()
	done chan struct{}
	gid  int64
	busy bool
}

func newActor() *actor {
	a := &actor{cmd: make(chan func()), done: make(chan struct{}, 1)}
	ready := make(chan struct{})
	go func() {
		a.gid = curGoroutineID()
		close(ready)
		for f := range a.cmd {
			f()
			a.done <- struct{}{}
		}
	}()
	<-ready
	return a
}

func (a *actor) start(f func()) {
	a.busy = true
	a.cmd <- f
}

// settle waits until the actor finished its command or the timeout passed
// (then it is presumably blocked or parked); reports whether it finished.
func (a *actor) settle(timeout time.Duration) bool {
	if !a.busy {
		return true
	}
	select {
	case <-a.done:
		a.busy = false
		return true
	case <-time.After(timeout):
		return false
	}
}

func (a *actor) wait() {
	if a.busy {
		<-a.done
		a.busy = false
	}
}

func (a *actor) stop() { close(a.cmd) }
