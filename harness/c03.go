package main

// C03: returned rows faithfully reproduce the stored JSON and are independent.
//
//	(a) framing: what a block stores is frame(rows) (writer accounting included), and
//	    the scanner returns exactly those rows;
//	(b) fidelity: every row a query returns DeepEquals json.Unmarshal(json.Marshal(row))
//	    for rows from a generator with escapes, unicode, big / precise numbers,
//	    json.Number, and json.RawMessage with duplicate keys, odd whitespace and
//	    invalid UTF-8;
//	(c) independence: returned maps and slices are mutated in place and the store is
//	    queried again; concurrent queries over blocks of varied sizes reuse pooled scan
//	    buffers while every row is checked; no string inside a returned row may point
//	    into a scan buffer ever handed out; the scan-buffer event log (get / put /
//	    materialize) is replayed through the ownership model;
//	(d) scan-buffer pool capacities against the model's class arithmetic;
//	(e) the pooled block read on its own (readPooledBlockRowData) for every stored block, with the
//	    metadata as the engine wrote it and as a legacy writer recorded it (empty Compression value):
//	    while the caller holds the returned row data, other scans draw buffers of the same classes from
//	    the pool and fill them; the row data must stay what the file says and the get/put log must
//	    replay through the ownership model. The same legacy view of the metadata (a MetaStore that
//	    yields "" for uncompressed blocks) is queried end to end in (b) and (c).

import (
	"bytes"
	"context"
	"encoding/json"
	"errors"
	"fmt"
	"io"
	"math"
	"reflect"
	"sort"
	"strings"
	"sync"
	"time"
	"unicode/utf8"
	"unsafe"

	bs "github.com/danthegoodman1/bloomsearch"
)

func init() { register("c03", []string{"C03"}, runC03) }

const sigD2 = "c03-raw-json-dup-keys-or-invalid-utf8"

func runC03(c *Ctx) {
	c.rep.Rule = "(b) rows from a generator mixing plain values with escapes / unicode / invalid UTF-8 strings, every Go numeric kind at its extremes, " +
		"json.Number, nested typed containers, and json.RawMessage fragments (duplicate keys, odd whitespace, invalid UTF-8, exotic number spellings), " +
		"ingested through real engines (all compressions, partitioning) and read back with full-scan and bloom queries; (a) every stored block of those engines; " +
		"(c) in-place mutation of every returned map/slice then re-query, 8 concurrent readers over blocks from 1 KiB to 256 KiB with the scan-buffer event log " +
		"replayed through the ownership model and a pointer-range check of every returned string; (d) pool get/put at class boundaries; " +
		"(e) readPooledBlockRowData on every stored block while other scans draw and fill buffers of the same pool classes; " +
		"(b), (c), (e) also over the legacy spelling of the metadata (uncompressed blocks whose Compression value is empty, served by a MetaStore). " +
		"Non-trivial: a returned row compared with its JSON round trip; an event log with buffer reuse; distinct by row JSON / log."
	sh := c.newShard("t03", runnerT, "caseT", "mismatches", "violations")
	sh.limit = 40
	c03Fidelity(c, sh)
	c03Independence(c, sh)
	c03Pool(c, sh)
}

// ---------------------------------------------------------------- row generator

var c03Strings = []string{
	"", "plain", "two words", "quote\"inside", "back\\slash", "tab\there", "new\nline", "ctl\x01\x1f", "del\x7f", "html<>&", "line sep ",
	"é", "日本語", "emoji😀pair", "\U0001F469‍\U0001F4BB", "\ufeffbom", "invalid\xffutf8", "trunc\xe2\x82", "surrogate\xed\xa0\x80half",
	strings.Repeat("long ", 200), "  spaces  ", "MiXeD Case", "nul\x00byte",
}

var c03Raw = []string{
	`{"a":1,"a":2}`, `{"a":{"x":1},"a":{"y":2},"b":[{"k":1,"k":2,"k":3}]}`, ` { "x" : [ 1 , 2 ,   3 ] ,` + "\n\t" + `"y" : null } `,
	"\"raw\xffbytes\"", "{\"k\xfe\":\"v\xc0\xaf\"}", `"é€"`, `"😀"`, `"\ud800"`, `"\udc00x"`, `[1E+2,-0,0.10,1e-7,123456789012345678901234567890]`,
	`[]`, `{}`, `null`, `true`, `[[],[{}],[[[]]]]`, `9007199254740993`, `-9223372036854775808`, `1.7976931348623157e308`, `5e-324`, `"\/\b\f"`,
	`{"":1,"":2}`, `{"a.b":1,"a":{"b":2}}`, `{"dup":[1],"dup":"s","dup":null}`, "[\"a\xffb\",\"\xf0\x9f\"]", `{"A":1,"a":2}`,
}

// c03Value draws one JSON-marshalable Go value.
func (c *Ctx) c03Value(depth int) any {
	switch k := c.intn(26); {
	case k < 5:
		return c03Strings[c.intn(len(c03Strings))]
	case k == 5:
		return []any{int8(-128), int16(32767), int32(math.MinInt32), int64(math.MaxInt64), int64(math.MinInt64), int(9007199254740993)}[c.intn(6)]
	case k == 6:
		return []any{uint8(255), uint16(65535), uint32(math.MaxUint32), uint64(math.MaxUint64), uint(1 << 53), uintptr(7)}[c.intn(6)]
	case k == 7:
		return []any{0.1, 1e21, 1e-7, 5e-324, math.MaxFloat64, math.Copysign(0, -1), float32(0.1), 123456789.123456789, -1e20, 100.0}[c.intn(10)]
	case k == 8:
		return []any{json.Number("12345678901234567890.123456789"), json.Number("-0"), json.Number("1E3"), json.Number("9223372036854775808"), json.Number("0.000000000000000000001")}[c.intn(5)]
	case k == 9:
		return c.chance(0.5)
	case k == 10:
		return nil
	case k < 14:
		return json.RawMessage(c03Raw[c.intn(len(c03Raw))])
	case k == 14:
		return time.Unix(int64(c.intn(2000000000)), int64(c.intn(1000000000))).UTC()
	case k == 15:
		return []byte(c03Strings[c.intn(len(c03Strings))])
	case k == 16:
		return []string{"a", c03Strings[c.intn(len(c03Strings))]}
	case k == 17:
		return map[string]int{"one": 1, c03Strings[c.intn(len(c03Strings))]: c.intn(100)}
	case k == 18:
		return struct {
			A int    `json:"a"`
			B string `json:"b,omitempty"`
			C *int   `json:"c"`
		}{A: c.intn(10), B: c03Strings[c.intn(len(c03Strings))]}
	case k == 19:
		return time.Duration(c.intn(1000000))
	case k < 23 && depth > 0:
		n := c.intn(4)
		arr := make([]any, n)
		for i := range arr {
			arr[i] = c.c03Value(depth - 1)
		}
		return arr
	case depth > 0:
		n := c.intn(4)
		m := map[string]any{}
		for i := 0; i < n; i++ {
			m[c.c03Key()] = c.c03Value(depth - 1)
		}
		return m
	}
	return c.intn(1000)
}

func (c *Ctx) c03Key() string {
	if c.chance(0.7) {
		return tKeys[c.intn(len(tKeys))]
	}
	return c03Strings[c.intn(len(c03Strings))]
}

func (c *Ctx) c03Row(id, partitions int) map[string]any {
	row := map[string]any{"id": id}
	if partitions > 0 {
		row["p"] = fmt.Sprintf("p%d", c.intn(partitions))
	}
	n := 1 + c.intn(6)
	for i := 0; i < n; i++ {
		k := c.c03Key()
		if k == "id" || k == "p" {
			continue
		}
		row[k] = c.c03Value(3)
	}
	return row
}

// hasDupKeysOrBadUTF8 reports whether marshaled JSON contains an object with a repeated
// key or a byte sequence that is not valid UTF-8 (the input class of finding D2).
func hasDupKeysOrBadUTF8(b []byte) bool {
	if !utf8.Valid(b) {
		return true
	}
	dec := json.NewDecoder(bytes.NewReader(b))
	dec.UseNumber()
	type frame struct {
		obj  bool
		keys map[string]bool
		key  bool // next token is a key
	}
	var stack []*frame
	for {
		tok, err := dec.Token()
		if err != nil {
			return false
		}
		top := func() *frame {
			if len(stack) == 0 {
				return nil
			}
			return stack[len(stack)-1]
		}
		if d, ok := tok.(json.Delim); ok {
			switch d {
			case '{':
				if t := top(); t != nil && t.obj {
					t.key = true
				}
				stack = append(stack, &frame{obj: true, keys: map[string]bool{}, key: true})
			case '[':
				if t := top(); t != nil && t.obj {
					t.key = true
				}
				stack = append(stack, &frame{})
			default:
				stack = stack[:len(stack)-1]
			}
			continue
		}
		t := top()
		if t != nil && t.obj {
			if t.key {
				k := tok.(string)
				if t.keys[k] {
					return true
				}
				t.keys[k] = true
				t.key = false
			} else {
				t.key = true
			}
		}
	}
}

// ---------------------------------------------------------------- (a)+(b) fidelity

func c03Fidelity(c *Ctx, sh *shard) {
	nWorlds := c.pick(8, 150)
	for wi := 0; wi < nWorlds; wi++ {
		tc := c.tGenConfig()
		if wi%4 == 3 {
			tc.cfg.RowDataCompression = bs.CompressionNone
			tc.desc += " (forced comp=none)"
		}
		w := c.tNewWorld(tc)
		n := 10 + c.intn(40)
		rows := make([]map[string]any, 0, n)
		for i := 0; i < n; i++ {
			r := c.c03Row(i, tc.partitions)
			if _, err := json.Marshal(r); err != nil {
				continue // not JSON-marshalable: outside the property
			}
			rows = append(rows, r)
		}
		c.tIngest(w, rows)
		c03CheckResults(c, w, w.eng, nil, "full-scan", wi)
		c03CheckResults(c, w, w.eng, bs.NewQuery().Field("id").Build(), "field(id)", wi)
		if tc.cfg.RowDataCompression == bs.CompressionNone {
			leg := w.legacyEngine()
			c03CheckResults(c, w, leg, nil, "full-scan over legacy metadata", wi)
			c03CheckResults(c, w, leg, bs.NewQuery().Field("id").Build(), "field(id) over legacy metadata", wi)
			c.dist("c03_metadata", "legacy empty compression")
		} else {
			c.dist("c03_metadata", "as written")
		}
		c03Framing(c, sh, w, wi)
		c03PooledRead(c, sh, w, wi)
		w.stop()
	}
	c03CursorFaults(c, sh)
}

// expected is the JSON round trip of an ingested row; ok is false when encoding/json cannot decode the marshaled form.
func (w *tWorld) expected(id int) (map[string]any, bool) {
	var m map[string]any
	if err := json.Unmarshal(w.json[id], &m); err != nil {
		return nil, false
	}
	return m, true
}

// legacyEngine is a query-only engine over the same stores whose MetaStore yields the legacy spelling.
func (w *tWorld) legacyEngine() *bs.BloomSearchEngine {
	eng, err := bs.NewBloomSearchEngine(w.tc.cfg, legacyMetaStore{w.meta}, w.store)
	must(err)
	return eng
}

func c03CheckResults(c *Ctx, w *tWorld, eng *bs.BloomSearchEngine, q *bs.Query, qname string, wi int) (rows []map[string]any) {
	got, qerr, serr := collect(eng, q)
	if serr != nil || qerr != nil {
		c.violation("c03-query-error", fmt.Sprintf("query %s failed on healthy stores: %v %v", qname, serr, qerr), map[string]any{"world": wi, "config": w.tc.desc})
		return nil
	}
	seen := map[int]int{}
	for _, r := range got {
		idf, ok := r["id"].(float64)
		if !ok {
			c.violation("c03-fidelity", fmt.Sprintf("returned row has no numeric id: %v", r), map[string]any{"world": wi})
			continue
		}
		id := int(idf)
		seen[id]++
		want, decodable := w.expected(id)
		if w.json[id] == nil {
			c.violation("c03-fidelity", fmt.Sprintf("returned row %d was never ingested", id), nil)
			continue
		}
		if !decodable {
			c.dist("c03_rows", "undecodable-by-encoding/json (excluded)")
			continue
		}
		d2class := hasDupKeysOrBadUTF8(w.json[id])
		desc := map[string]any{"row_json": string(w.json[id]), "row_json_hex": fmt.Sprintf("%x", w.json[id]), "returned": fmt.Sprintf("%#v", r), "round_trip": fmt.Sprintf("%#v", want), "query": qname, "config": w.tc.desc}
		c.count([]string{"C03"}, "fid:"+string(w.json[id]), true, map[string]any{"row_json": string(w.json[id]), "query": qname})
		if d2class {
			c.dist("c03_rows", "raw JSON with duplicate keys / invalid UTF-8")
		} else {
			c.dist("c03_rows", "other")
		}
		if !reflect.DeepEqual(r, want) {
			sig := "c03-fidelity"
			what := "a returned row differs from the JSON round trip of the ingested row"
			if d2class {
				sig = sigD2
				what += " (raw JSON with duplicate object keys or invalid UTF-8: materializeRow kept the first duplicate / passed invalid bytes through)"
			}
			c.violation(sig, what+": "+truncate(string(w.json[id]), 300), desc)
		}
	}
	if q == nil {
		for id := range w.json {
			if seen[id] != 1 {
				c.violation("c03-fidelity", fmt.Sprintf("full scan returned row %d %d times", id, seen[id]), map[string]any{"world": wi})
			}
		}
	}
	return got
}

func truncate(s string, n int) string {
	if len(s) > n {
		return s[:n] + "..."
	}
	return s
}

// c03Framing: every stored block is frame(rows) of the marshaled rows, with the writer's accounting.
func c03Framing(c *Ctx, sh *shard, w *tWorld, wi int) {
	for _, f := range w.files() {
		for i := range f.meta.DataBlocks {
			b := f.meta.DataBlocks[i]
			if b.UncompressedSize > 6000 && !c.thorough() {
				continue
			}
			rd, err := bs.ReadDataBlockRowData(bytes.NewReader(f.data), &b)
			if err != nil {
				c.violation("c03-framing", "ReadDataBlockRowData failed on a healthy file: "+err.Error(), nil)
				continue
			}
			var rows, scanned [][]byte
			sc := bs.NewBlockRowScanner(rd)
			ok := true
			for {
				rb, more, err := sc.Next()
				if err != nil {
					ok = false
					break
				}
				if !more {
					break
				}
				scanned = append(scanned, rb)
				if id, has := tRowID(rb); has && w.json[id] != nil {
					rows = append(rows, w.json[id])
				} else {
					rows = append(rows, []byte("?"))
				}
			}
			desc := map[string]any{"kind": "framing", "world": wi, "file": f.pointer, "block": i, "rows": len(rows), "uncompressed_size": b.UncompressedSize}
			sh.add(c, fmt.Sprintf("TFrame %s %s %s %s", coqStrs(rows), coqStr(rd), coqZ(int64(b.UncompressedSize)), coqZ(int64(b.Rows))), desc)
			sh.add(c, fmt.Sprintf("TScan %s %s %s", coqStr(rd), coqStrs(scanned), coqBool(ok)), desc)
			c.count([]string{"C03"}, "frame:"+string(rd), len(rows) > 0, nil)
		}
	}
}

// ---------------------------------------------------------------- (c) independence

type bufRange struct {
	start, end uintptr
	id         uint64
	pin        string // keeps the buffer alive so its address is never reused
}

type ownLog struct {
	mu      sync.Mutex
	bufs    []bufRange // sorted by start
	next    uint64
	events  []string
	gets    int
	reuses  int
	rows    int
	unknown int
}

func (l *ownLog) find(p uintptr) *bufRange {
	i := sort.Search(len(l.bufs), func(i int) bool { return l.bufs[i].end > p })
	if i < len(l.bufs) && l.bufs[i].start <= p {
		return &l.bufs[i]
	}
	return nil
}

func (l *ownLog) sink(ev bs.VerifEvent) {
	if ev.Kind != "sb.get" && ev.Kind != "sb.put" && ev.Kind != "scan.row" {
		return
	}
	if len(ev.S) == 0 {
		return
	}
	p := uintptr(unsafe.Pointer(unsafe.StringData(ev.S)))
	l.mu.Lock()
	defer l.mu.Unlock()
	switch ev.Kind {
	case "sb.get":
		l.gets++
		b := l.find(p)
		if b == nil || b.start != p {
			nb := bufRange{start: p, end: p + uintptr(len(ev.S)), id: l.next, pin: ev.S}
			l.next++
			i := sort.Search(len(l.bufs), func(i int) bool { return l.bufs[i].start > p })
			l.bufs = append(l.bufs, bufRange{})
			copy(l.bufs[i+1:], l.bufs[i:])
			l.bufs[i] = nb
			b = &l.bufs[i]
		} else {
			l.reuses++
		}
		l.events = append(l.events, fmt.Sprintf("OGet %s %s %s", coqN(b.id), coqZ(ev.A), coqZ(int64(len(ev.S)))))
	case "sb.put":
		b := l.find(p)
		if b == nil || b.start != p {
			l.unknown++
			l.events = append(l.events, fmt.Sprintf("OPut %s %s", coqN(1<<40), coqZ(ev.A)))
			return
		}
		l.events = append(l.events, fmt.Sprintf("OPut %s %s", coqN(b.id), coqZ(ev.A)))
	case "scan.row":
		l.rows++
		b := l.find(p)
		id := uint64(1 << 40)
		if b != nil {
			id = b.id
		} else {
			l.unknown++
		}
		l.events = append(l.events, fmt.Sprintf("ORow %s", coqN(id)))
		l.next++ // the delivered row takes the next region number
	}
}

// aliased reports a string inside v whose bytes lie inside a scan buffer.
func (l *ownLog) aliased(v any) (string, bool) {
	check := func(s string) bool {
		if len(s) == 0 {
			return false
		}
		p := uintptr(unsafe.Pointer(unsafe.StringData(s)))
		return l.find(p) != nil
	}
	switch t := v.(type) {
	case string:
		if check(t) {
			return t, true
		}
	case map[string]any:
		for k, x := range t {
			if check(k) {
				return k, true
			}
			if s, bad := l.aliased(x); bad {
				return s, true
			}
		}
	case []any:
		for _, x := range t {
			if s, bad := l.aliased(x); bad {
				return s, true
			}
		}
	}
	return "", false
}

// scribble overwrites everything reachable from a returned value, in place.
func scribble(v any, depth int) {
	switch t := v.(type) {
	case map[string]any:
		for k, x := range t {
			scribble(x, depth+1)
			t[k] = "scribbled"
		}
		t["injected"] = []any{"x"}
		delete(t, "id")
	case []any:
		for i, x := range t {
			scribble(x, depth+1)
			t[i] = float64(-1)
		}
	}
}

func c03Independence(c *Ctx, sh *shard) {
	nWorlds := c.pick(6, 48)
	for wi := 0; wi < nWorlds; wi++ {
		tc := c.tGenConfig()
		// every third world is read through the legacy spelling of its metadata (uncompressed blocks, Compression "")
		legacy := wi%3 == 2
		if legacy {
			tc.cfg.RowDataCompression = bs.CompressionNone
			tc.desc += " (comp=none, queried over legacy metadata)"
		}
		// blocks of very different sizes, so pooled buffers move between classes and blocks
		tc.cfg.MaxRowGroupRows = 40
		tc.cfg.MaxRowGroupBytes = 1 << 20
		tc.cfg.MaxBufferedRows = 30 + c.intn(60)
		tc.cfg.MaxQueryConcurrency = 2 + c.intn(8)
		w := c.tNewWorld(tc)
		qeng := w.eng
		if legacy {
			qeng = w.legacyEngine()
		}
		c.dist("c03_independence_metadata", map[bool]string{true: "legacy empty compression", false: "as written"}[legacy])
		n := 80 + c.intn(120)
		rows := make([]map[string]any, n)
		for i := range rows {
			rows[i] = c.c03RowPlain(i, tc.partitions)
			if c.chance(0.3) {
				rows[i]["pad"] = strings.Repeat(fmt.Sprintf("pad%d ", i), 1<<(c.intn(9)))
			}
		}
		c.tIngest(w, rows)
		want := map[int]map[string]any{}
		for id := range w.json {
			m, _ := w.expected(id)
			want[id] = m
		}
		log := &ownLog{}
		bs.VerifSetSink(log.sink)

		verify := func(got []map[string]any, phase string) bool {
			if len(got) != len(want) {
				c.violation("c03-independence", fmt.Sprintf("%s: %d rows returned, %d stored", phase, len(got), len(want)), map[string]any{"world": wi})
				return false
			}
			for _, r := range got {
				idf, _ := r["id"].(float64)
				if !reflect.DeepEqual(r, want[int(idf)]) {
					c.violation("c03-independence", fmt.Sprintf("%s: row %d differs from its JSON round trip: got %s", phase, int(idf), truncate(fmt.Sprintf("%v", r), 300)), map[string]any{"world": wi, "config": tc.desc})
					return false
				}
			}
			return true
		}
		pointers := func(got []map[string]any, phase string) {
			for _, r := range got {
				if s, bad := log.aliased(r); bad {
					c.violation("c03-aliasing", fmt.Sprintf("%s: a string of a returned row points into a pooled scan buffer: %q", phase, truncate(s, 80)), map[string]any{"world": wi})
					return
				}
			}
		}

		// sequential: query, check, scribble, query again, check; two live results at once
		a, _, _ := collect(qeng, nil)
		b, _, _ := collect(qeng, nil)
		verify(a, "first query")
		pointers(a, "first query")
		for _, r := range a {
			scribble(r, 0)
		}
		verify(b, "second result after the first result's rows were overwritten in place")
		for i, r := range b {
			if i%2 == 0 {
				scribble(r, 0)
			}
		}
		odd := 0
		for i, r := range b {
			if i%2 == 1 {
				idf, _ := r["id"].(float64)
				if !reflect.DeepEqual(r, want[int(idf)]) {
					odd++
				}
			}
		}
		if odd > 0 {
			c.violation("c03-independence", fmt.Sprintf("%d rows changed when other rows of the same result were overwritten in place", odd), map[string]any{"world": wi})
		}
		d, _, _ := collect(qeng, nil)
		verify(d, "query after returned rows were overwritten in place")
		pointers(d, "re-query")
		c.count([]string{"C03"}, fmt.Sprintf("indep-seq-%d-%d", wi, len(a)), true, map[string]any{"phase": "mutate-and-requery", "rows": len(a), "config": tc.desc})

		// concurrent readers
		var wg sync.WaitGroup
		readers := 8
		results := make([][][]map[string]any, readers)
		for g := 0; g < readers; g++ {
			wg.Add(1)
			go func(g int) {
				defer wg.Done()
				for k := 0; k < 3; k++ {
					got, qerr, serr := collect(qeng, nil)
					if qerr != nil || serr != nil {
						got = nil
					}
					results[g] = append(results[g], got)
				}
			}(g)
		}
		wg.Wait()
		bs.VerifSetSink(nil)
		for g := range results {
			for k, got := range results[g] {
				if !verify(got, fmt.Sprintf("concurrent reader %d query %d", g, k)) {
					break
				}
				pointers(got, "concurrent query")
			}
		}
		log.mu.Lock()
		events := append([]string(nil), log.events...)
		gets, reuses, nrows, unknown := log.gets, log.reuses, log.rows, log.unknown
		log.mu.Unlock()
		desc := map[string]any{"kind": "ownership-log", "world": wi, "events": len(events), "buffers_handed_out": gets, "reused": reuses, "rows_materialized": nrows, "unknown_regions": unknown, "config": tc.desc}
		if unknown > 0 {
			c.violation("c03-ownership", fmt.Sprintf("%d scan-buffer events refer to memory that no getScanBuffer call handed out", unknown), desc)
		}
		// the log is long: split it into windows that each start from the state the previous one reached is not
		// possible without the model, so the whole log is one case
		sh.add(c, fmt.Sprintf("TOwn %s %s", coqN(0), coqList(events)), desc)
		c.count([]string{"C03"}, fmt.Sprintf("own-%d-%d-%d", wi, len(events), reuses), reuses > 0, desc)
		c.rep.TracesValidated++
		c.dist("c03_ownership", fmt.Sprintf("reuse=%v", reuses > 0))
		w.stop()
	}
}

// c03RowPlain: rows for the independence worlds (valid UTF-8, no raw JSON), so that any
// difference is an aliasing effect and not finding D2.
func (c *Ctx) c03RowPlain(id, partitions int) map[string]any {
	row := c.tRow(id, partitions)
	row["nested"] = map[string]any{"list": []any{"a", float64(id), map[string]any{"deep": c.tText()}}, "s": c.tText()}
	return row
}

// ---------------------------------------------------------------- (e) the pooled block read on its own

// c03PooledRead drives readPooledBlockRowData the way a block scan does, one block at a time, and plays
// the other scans itself: between the read and its release it draws buffers of the same pool classes,
// fills them (another block being read) and returns them. What the caller holds must stay the file's
// row data until release, and the get/put/use log must replay through the ownership model.
func c03PooledRead(c *Ctx, sh *shard, w *tWorld, wi int) {
	for _, f := range w.files() {
		for i := range f.meta.DataBlocks {
			orig := f.meta.DataBlocks[i]
			if orig.UncompressedSize > 6000 && !c.thorough() || orig.RowDataSize == 0 {
				continue
			}
			var want []byte
			switch orig.Compression {
			case bs.CompressionNone:
				want = append([]byte(nil), f.data[orig.RowDataOffset:orig.RowDataOffset+orig.RowDataSize]...)
			default:
				d, ok := libDecompress(orig.Compression, f.data[orig.RowDataOffset:orig.RowDataOffset+orig.RowDataSize], 1<<24)
				if !ok {
					c.violation("c03-pooled-read", "a healthy block does not decompress with the library", map[string]any{"world": wi, "file": f.pointer, "block": i})
					continue
				}
				want = d
			}
			variants := []bs.DataBlockMetadata{orig}
			if orig.Compression == bs.CompressionNone {
				leg := orig
				leg.Compression = ""
				variants = append(variants, leg)
			}
			for _, b := range variants {
				spelling := "as written"
				if b.Compression == "" {
					spelling = "legacy empty compression"
				}
				desc := map[string]any{"kind": "pooled-read", "world": wi, "file": f.pointer, "block": i, "compression": string(orig.Compression), "metadata": spelling,
					"row_data_size": b.RowDataSize, "uncompressed_size": b.UncompressedSize, "config": w.tc.desc}
				log := &ownLog{}
				bs.VerifSetSink(log.sink)
				rd, release, err := bs.VerifReadPooledBlockRowData(bytes.NewReader(f.data), &b)
				if err != nil {
					bs.VerifSetSink(nil)
					c.violation("c03-pooled-read", "readPooledBlockRowData failed on a healthy block ("+spelling+"): "+err.Error(), desc)
					continue
				}
				nRead := len(log.events)
				// other scans: same classes as the compressed and the decoded buffer
				var others [][]byte
				for _, size := range []int{b.RowDataSize, len(want), b.RowDataSize} {
					o := bs.VerifGetScanBuffer(size)
					if cap(o) == 0 {
						continue
					}
					full := o[:cap(o)]
					log.sink(bs.VerifEvent{Kind: "sb.get", A: int64(size), S: unsafe.String(&full[0], len(full))})
					for j := range full {
						full[j] = 0xA5
					}
					others = append(others, o)
				}
				intact := bytes.Equal(rd, want)
				if len(rd) > 0 { // the scan uses its row data now
					log.sink(bs.VerifEvent{Kind: "scan.row", S: unsafe.String(&rd[0], len(rd))})
				}
				for _, o := range others {
					bs.VerifPutScanBuffer(o)
				}
				nRelease := len(log.events)
				release()
				bs.VerifSetSink(nil)
				if !intact {
					c.violation("c03-pooled-read", fmt.Sprintf("row data held by a block scan (%s metadata, %s) changed when other scans drew buffers from the pool: the live buffer was in the pool before its release",
						spelling, orig.Compression), desc)
				}
				events := append([]string(nil), log.events...)
				desc["events"] = len(events)
				sh.add(c, fmt.Sprintf("TOwn %s %s", coqN(0), coqList(events)), desc)
				// the call on its own against the program of Model/ScanPool.v (which buffers it draws, returns and releases)
				sh.add(c, fmt.Sprintf("TPooled %s %s %s", coqComp(b.Compression), coqList(events[:nRead]), coqList(events[nRelease:])), desc)
				c.count([]string{"C03"}, fmt.Sprintf("pooled-%d-%s-%d-%s", wi, f.pointer, i, spelling), true, desc)
				c.dist("c03_pooled_read", string(orig.Compression)+" / "+spelling)
			}
		}
	}
}

// c03CursorFaults: the block filter cursor draws its chunk buffers from the same pool as the block scans.
// A filter region of several chunks, a read failure at the k-th chunk read (or none), then release: every
// buffer the cursor drew is returned exactly once, none that it does not hold (a buffer returned twice is
// handed to two scans later on). The get/put log goes through the ownership LTS.
func c03CursorFaults(c *Ctx, sh *shard) {
	const sec = 3 << 20 // a section per chunk: two do not fit under the chunk target
	for probe := 0; probe < c.pick(4, 12); probe++ {
		nBlocks := 3 + c.intn(2)
		roff := int64(4096)
		blocks := make([]bs.DataBlockMetadata, nBlocks)
		for i := range blocks {
			blocks[i] = bs.DataBlockMetadata{RowDataOffset: i * 100, RowDataSize: 100, BloomFilterOffset: int(roff) + i*sec, BloomFilterSize: sec}
		}
		rsize := int64(nBlocks * sec)
		vf := &virtualFile{size: roff + rsize}
		pr := &probeFile{size: vf.size, fill: vf.fill}
		failAt := -1
		if probe%4 != 3 {
			failAt = 1 + c.intn(nBlocks-1) // the second or a later chunk read
		}
		rd := &failingReadSeeker{inner: pr, failAt: failAt}
		log := &ownLog{}
		bs.VerifSetSink(log.sink)
		steps, failed := 0, false
		p := safeCall(func() {
			cur := bs.VerifNewFilterCursor(rd, blocks, roff, roff+rsize)
			defer cur.Release()
			for i := range blocks {
				st := cur.Step(i)
				steps++
				if st.ReadFailed {
					failed = true
					break
				}
			}
		})
		bs.VerifSetSink(nil)
		desc := map[string]any{"kind": "cursor-fault", "blocks": nBlocks, "section_bytes": sec, "fail_at_chunk_read": failAt, "steps": steps, "read_failed": failed}
		if p != "" {
			c.violation("c03-cursor-panic", "blockFilterCursor panicked: "+p, desc)
			continue
		}
		held := map[string]bool{}
		for _, e := range log.events {
			f := strings.Fields(e)
			switch f[0] {
			case "OGet":
				held[f[1]] = true
			case "OPut":
				if !held[f[1]] {
					c.violation("c03-buffer-returned-twice", fmt.Sprintf("the filter cursor returned a pool buffer it did not hold (chunk read %d failed=%v): two later scans can be handed the same buffer", failAt, failed), desc)
				}
				delete(held, f[1])
			}
		}
		if len(held) > 0 {
			c.mismatch("c03-cursor-leak", fmt.Sprintf("%d chunk buffers were never returned to the pool", len(held)), desc)
		}
		events := append([]string(nil), log.events...)
		desc["events"] = len(events)
		sh.add(c, fmt.Sprintf("TOwn %s %s", coqN(0), coqList(events)), desc)
		c.count([]string{"C03"}, fmt.Sprintf("cursor-fault-%d-%d-%d", probe, nBlocks, failAt), true, desc)
		c.dist("c03_cursor_fault", fmt.Sprintf("fail_at=%d failed=%v", failAt, failed))
	}
}

// failingReadSeeker fails the failAt-th Read call (counted from 0) and every later one.
type failingReadSeeker struct {
	inner  io.ReadSeeker
	failAt int
	reads  int
}

func (f *failingReadSeeker) Seek(off int64, whence int) (int64, error) {
	return f.inner.Seek(off, whence)
}
func (f *failingReadSeeker) Read(p []byte) (int, error) {
	n := f.reads
	f.reads++
	if f.failAt >= 0 && n >= f.failAt {
		return 0, errors.New("injected read failure")
	}
	return f.inner.Read(p)
}

// ---------------------------------------------------------------- (d) pool

func c03Pool(c *Ctx, sh *shard) {
	min, max := bs.VerifScanBufferMinShift, bs.VerifScanBufferMaxShift
	if min != 10 || max != 26 {
		c.mismatch("c03-pool-constants", fmt.Sprintf("scan buffer shifts are %d..%d, the model has 10..26", min, max), nil)
	}
	var sizes []int
	for _, s := range []int{-5, 0, 1, 2, 1000, 1023, 1024, 1025, 1500, 2047, 2048, 2049, 4095, 4096, 4097, 65535, 65536, 65537, 1<<20 - 1, 1 << 20, 1<<20 + 1, 1<<26 - 1, 1 << 26, 1<<26 + 1} {
		sizes = append(sizes, s)
	}
	for i := 0; i < c.pick(150, 3000); i++ {
		sh := uint(c.intn(18))
		sizes = append(sizes, (1<<sh)+c.intn(1<<sh+1)-c.intn(2))
	}
	foreign := []int{1023, 1024, 1025, 1536, 2047, 2048, 3000, 4095, 4096, 5000, 8191, 8192, 10000, 1<<16 + 1, 1<<17 - 1, 1 << 26, 1<<26 + 1}
	reused := 0
	for i, size := range sizes {
		// sometimes file a foreign buffer first (odd capacities exercise put's floor class)
		var put []byte
		if c.chance(0.5) {
			cp := foreign[c.intn(len(foreign))]
			put = make([]byte, 0, cp)
			bs.VerifPutScanBuffer(put)
		}
		var buf []byte
		if p := safeCall(func() { buf = bs.VerifGetScanBuffer(size) }); p != "" {
			c.violation("c03-pool-panic", fmt.Sprintf("getScanBuffer(%d) panicked after a put of capacity %d: %s", size, cap(put), p), nil)
			continue
		}
		wantLen := size
		if wantLen < 0 {
			wantLen = 0
		}
		if len(buf) != wantLen {
			c.violation("c03-pool-len", fmt.Sprintf("getScanBuffer(%d) returned %d bytes", size, len(buf)), nil)
		}
		if put != nil && cap(buf) == cap(put) && cap(put) > 0 && &buf[:1][0] == &put[:1][0] {
			reused++
		}
		term := fmt.Sprintf("TPoolGet %s %s", coqZ(int64(size)), coqZ(int64(cap(buf))))
		sh.add(c, term, map[string]any{"kind": "pool-get", "size": size, "cap": cap(buf), "after_put_cap": cap(put)})
		c.count([]string{"C03"}, fmt.Sprintf("pool-%d-%d-%d", i, size, cap(buf)), true, nil)
		if c.chance(0.7) {
			bs.VerifPutScanBuffer(buf)
		}
	}
	c.dist("c03_pool", fmt.Sprintf("gets=%d foreign_buffers_reused=%d", len(sizes), reused))
	if reused == 0 {
		c.rep.Notes = append(c.rep.Notes, "pool test: no foreign buffer came back from the pool in this run (sync.Pool dropped them); class filing was exercised only through the ownership logs")
	}
}

var _ = context.Background
