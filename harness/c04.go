package main

// C04: ConvertToMinMaxInt64 / Evaluate*Condition / prefilter trees / index
// maintenance at ingest and merge, against Model/MinMax.v.

import (
	"context"
	"encoding/json"
	"fmt"
	"time"

	bs "github.com/danthegoodman1/bloomsearch"
)

func init() { register("c04", []string{"C04"}, runC04) }

const runnerM = "Model.MinMax Cases.RunnerM"

func runC04(c *Ctx) {
	c.rep.Rule = "conv: values of every Go numeric kind (named/unnamed, float bit patterns, int64/uint64 extremes); " +
		"minmax: exhaustive boundary product {MinInt64,MinInt64+1,-1,0,1,MaxInt64-1,MaxInt64} for ranges x operators x operands plus random; " +
		"trees: random AND/OR prefilter trees with nil/empty/unknown nodes on engine-produced block metadata; " +
		"rows: typed rows ingested through a real engine (flush, optional merge), each (row, its block, tree) checked. " +
		"Non-trivial: conv on a numeric value; a condition whose verdict is not constant across the generated ranges; " +
		"a (row, tree) pair where the tree has >= 1 real condition. Distinct by case text."
	sh := c.newShard("m", runnerM, "caseM", "mismatches", "violations")
	sh.limit = 1200

	// (a) conversion
	nConv := c.pick(1500, 30000)
	for i := 0; i < nConv; i++ {
		nv := c.genNum()
		lo, hi, ok := bs.ConvertToMinMaxInt64(nv.v)
		obs := coqOpt(ok, coqPair(coqZ(lo), coqZ(hi)))
		term := fmt.Sprintf("CConv %s %s", nv.coq, obs)
		c.dist("conv_kind", nv.kind)
		desc := map[string]any{"kind": "conv", "go_type": fmt.Sprintf("%T", nv.v), "value": fmt.Sprintf("%v", nv.v), "ok": ok, "min": lo, "max": hi}
		sh.add(c, term, desc)
		c.count([]string{"C04"}, term, nv.numeric, desc)
	}

	// (b) exhaustive boundary product for EvaluateMinMaxCondition
	addMM := func(idx bs.MinMaxIndex, nc bs.NumericCondition) {
		obs := bs.EvaluateMinMaxCondition(idx, nc)
		term := fmt.Sprintf("CMinMax %s %s %s", coqPair(coqZ(idx.Min), coqZ(idx.Max)), coqNCond(nc), coqBool(obs))
		c.dist("minmax_op", string(nc.Operator))
		c.dist("minmax_verdict", fmt.Sprint(obs))
		desc := map[string]any{"kind": "minmax", "min": idx.Min, "max": idx.Max, "cond": nc, "verdict": obs}
		sh.add(c, term, desc)
		c.count([]string{"C04"}, term, true, desc)
	}
	for _, mn := range boundaryI64 {
		for _, mx := range boundaryI64 {
			if mn > mx {
				continue
			}
			idx := bs.MinMaxIndex{Min: mn, Max: mx}
			for _, op := range allOps {
				switch op {
				case bs.OpIn, bs.OpNotIn:
					for _, a := range boundaryI64 {
						addMM(idx, bs.NumericCondition{Operator: op, Values: []int64{a}})
						addMM(idx, bs.NumericCondition{Operator: op, Values: []int64{a, 0}})
					}
					addMM(idx, bs.NumericCondition{Operator: op})
				case bs.OpBetween, bs.OpNotBetween:
					for _, a := range boundaryI64 {
						for _, b := range boundaryI64 {
							addMM(idx, bs.NumericCondition{Operator: op, Min: a, Max: b})
						}
					}
				default:
					for _, a := range boundaryI64 {
						addMM(idx, bs.NumericCondition{Operator: op, Value: a})
					}
				}
			}
		}
	}
	nRand := c.pick(1500, 40000)
	for i := 0; i < nRand; i++ {
		a, b := c.genI64(), c.genI64()
		if a > b && c.chance(0.9) {
			a, b = b, a
		}
		addMM(bs.MinMaxIndex{Min: a, Max: b}, c.genNCond([]int64{a, b}))
	}
	// numeric / string conditions on plain values
	for i := 0; i < c.pick(600, 10000); i++ {
		v := c.genI64()
		nc := c.genNCond([]int64{v})
		obs := bs.EvaluateNumericCondition(v, nc)
		term := fmt.Sprintf("CNum %s %s %s", coqZ(v), coqNCond(nc), coqBool(obs))
		sh.add(c, term, map[string]any{"kind": "numeric", "value": v, "cond": nc, "verdict": obs})
		c.count([]string{"C04"}, term, true, nil)
	}
	for i := 0; i < c.pick(600, 10000); i++ {
		v := partitionPool[c.intn(len(partitionPool))]
		sc := c.genSCond()
		obs := bs.EvaluateStringCondition(v, sc)
		term := fmt.Sprintf("CStr %s %s %s", coqS(v), coqSCond(sc), coqBool(obs))
		sh.add(c, term, map[string]any{"kind": "string", "value": v, "cond": sc, "verdict": obs})
		c.count([]string{"C04"}, term, true, nil)
	}

	// (c) end to end through an engine
	nScen := c.pick(25, 400)
	for s := 0; s < nScen; s++ {
		c04Scenario(c, sh, s)
	}
}

type typedRow struct {
	id        int
	partition string
	row       map[string]any
	vals      map[string]numVal // configured minmax keys present in the row
}

func (t *typedRow) coq(keys []string) string {
	items := []string{}
	for _, k := range keys {
		if nv, ok := t.vals[k]; ok {
			items = append(items, coqPair(coqS(k), nv.coq))
		}
	}
	return fmt.Sprintf("{| r_partition := %s; r_vals := %s |}", coqS(t.partition), coqList(items))
}

func c04Scenario(c *Ctx, sh *shard, scen int) {
	keys := []string{"n", "m", "d"}
	ctx := context.Background()
	cfg := bs.DefaultBloomSearchEngineConfig()
	cfg.MinMaxIndexes = keys
	usePartition := c.chance(0.7)
	if usePartition {
		cfg.PartitionFunc = func(row map[string]any) string {
			p, _ := row["p"].(string)
			return p
		}
	}
	cfg.MaxRowGroupRows = 2 + c.intn(6)
	cfg.MaxBufferedRows = 4 + c.intn(10)
	cfg.MaxBufferedTime = time.Hour
	cfg.RowDataCompression = []bs.CompressionType{bs.CompressionNone, bs.CompressionSnappy, bs.CompressionZstd}[c.intn(3)]
	meta := bs.NewMemoryMetaStore()
	store := newMemDataStore()
	eng, err := bs.NewBloomSearchEngine(cfg, meta, store)
	must(err)
	eng.Start()

	nRows := 6 + c.intn(30)
	rows := make([]*typedRow, 0, nRows)
	near := map[string][]int64{}
	for i := 0; i < nRows; i++ {
		tr := &typedRow{id: i, row: map[string]any{"id": i}, vals: map[string]numVal{}}
		if usePartition {
			tr.partition = partitionPool[c.intn(4)]
			tr.row["p"] = tr.partition
		}
		for _, k := range keys {
			if c.chance(0.25) {
				continue
			}
			nv := c.genNum()
			for !nv.jsonOK {
				nv = c.genNum()
			}
			tr.row[k] = nv.v
			tr.vals[k] = nv
			if lo, hi, ok := bs.ConvertToMinMaxInt64(nv.v); ok {
				near[k] = append(near[k], lo, hi)
			}
			c.dist("row_value_kind", nv.kind)
		}
		rows = append(rows, tr)
	}
	// ingest in batches
	for i := 0; i < len(rows); {
		n := 1 + c.intn(5)
		if i+n > len(rows) {
			n = len(rows) - i
		}
		batch := make([]map[string]any, n)
		for j := 0; j < n; j++ {
			batch[j] = rows[i+j].row
		}
		done := make(chan error, 1)
		must(eng.IngestRows(ctx, batch, done))
		i += n
		if c.chance(0.3) {
			must(eng.Flush(ctx))
		}
	}
	must(eng.Flush(ctx))
	merged := false
	if c.chance(0.5) {
		cfgMergeOK := true
		if _, err := eng.Merge(ctx); err != nil {
			cfgMergeOK = false
			c.violation("c04-merge-error", "Merge failed on healthy stores: "+err.Error(), nil)
		}
		merged = cfgMergeOK
	}
	c.dist("scenario", fmt.Sprintf("partition=%v merged=%v comp=%s", usePartition, merged, cfg.RowDataCompression))

	// observe layout
	type obsBlock struct {
		meta bs.DataBlockMetadata
		rows []*typedRow
	}
	var blocks []obsBlock
	var allMeta []bs.DataBlockMetadata
	for f, err := range meta.GetMaybeFilesForQuery(ctx, nil) {
		must(err)
		for _, bm := range f.Metadata.DataBlocks {
			h, err := store.OpenFile(ctx, f.PointerBytes)
			must(err)
			data, err := bs.ReadDataBlockRowData(h, &bm)
			must(err)
			h.Close()
			ob := obsBlock{meta: bm}
			sc := bs.NewBlockRowScanner(data)
			for {
				rb, ok, err := sc.Next()
				must(err)
				if !ok {
					break
				}
				var m map[string]any
				must(json.Unmarshal(rb, &m))
				ob.rows = append(ob.rows, rows[int(m["id"].(float64))])
			}
			blocks = append(blocks, ob)
			allMeta = append(allMeta, bm)
		}
	}
	stored := 0
	for _, ob := range blocks {
		stored += len(ob.rows)
		// index maintenance vs model
		rcoq := make([]string, len(ob.rows))
		for i, r := range ob.rows {
			rcoq[i] = r.coq(keys)
		}
		term := fmt.Sprintf("CIndex %s %s %s", coqStrList(keys), coqList(rcoq), coqMM(ob.meta.MinMaxIndexes))
		desc := map[string]any{"kind": "index", "scenario": scen, "block_partition": ob.meta.PartitionID, "rows": len(ob.rows), "minmax": ob.meta.MinMaxIndexes, "merged": merged}
		sh.add(c, term, desc)
		c.count([]string{"C04"}, term, len(ob.meta.MinMaxIndexes) > 0, desc)
	}
	if stored != len(rows) {
		c.violation("c04-row-count", fmt.Sprintf("stored %d rows, ingested %d", stored, len(rows)), nil)
	}

	// trees
	nTrees := c.pick(12, 40)
	for t := 0; t < nTrees; t++ {
		e, ecoq := c.genPExpr(3, keys, near)
		pf := &bs.QueryPrefilter{Expression: &e}
		keptIdx := map[int]bool{}
		for i := range allMeta {
			keptIdx[i] = bs.EvaluateDataBlockMetadata(&allMeta[i], pf)
		}
		// FilterDataBlocks must agree with EvaluateDataBlockMetadata
		nk := 0
		for i := range allMeta {
			if keptIdx[i] {
				nk++
			}
		}
		if nk != len(bs.FilterDataBlocks(allMeta, pf)) {
			c.mismatch("c04-filterdatablocks", "FilterDataBlocks and EvaluateDataBlockMetadata disagree", ecoq)
		}
		for i, ob := range blocks {
			tterm := fmt.Sprintf("CTree %s %s %s", coqBlockMeta(&ob.meta), ecoq, coqBool(keptIdx[i]))
			sh.add(c, tterm, map[string]any{"kind": "tree", "scenario": scen, "tree": e, "block": ob.meta.MinMaxIndexes, "partition": ob.meta.PartitionID, "kept": keptIdx[i]})
			c.count([]string{"C04"}, tterm, true, nil)
			// a few rows of the block
			for j, r := range ob.rows {
				if j >= 3 && !c.thorough() {
					break
				}
				rterm := fmt.Sprintf("CRow %s %s %s %s", r.coq(keys), coqBlockMeta(&ob.meta), ecoq, coqBool(keptIdx[i]))
				desc := map[string]any{"kind": "row", "scenario": scen, "row": fmt.Sprintf("%v", r.row), "types": typeNames(r.row), "block_minmax": ob.meta.MinMaxIndexes, "block_partition": ob.meta.PartitionID, "tree": e, "kept": keptIdx[i], "merged": merged}
				sh.add(c, rterm, desc)
				c.count([]string{"C04"}, rterm, true, desc)
			}
		}
		// through Query: a prefilter-only query returns exactly the rows of the kept blocks
		res, err := eng.Query(ctx, &bs.Query{Prefilter: pf})
		must(err)
		got := map[int]int{}
		for res.Next() {
			got[int(res.Row()["id"].(float64))]++
		}
		if err := res.Err(); err != nil {
			c.violation("c04-query-error", "query failed on healthy stores: "+err.Error(), nil)
		}
		res.Close()
		want := map[int]int{}
		for i, ob := range blocks {
			if keptIdx[i] {
				for _, r := range ob.rows {
					want[r.id]++
				}
			}
		}
		if !sameCounts(got, want) {
			c.violation("c04-query-vs-filter", fmt.Sprintf("prefilter-only query returned %v, kept blocks hold %v", got, want), map[string]any{"tree": e})
		}
	}
	stopCtx, cancel := context.WithTimeout(ctx, 120*time.Second)
	if err := eng.Stop(stopCtx); err != nil {
		c.violation("c04-stop", "Stop failed: "+err.Error(), nil)
	}
	cancel()
}

func typeNames(row map[string]any) map[string]string {
	out := map[string]string{}
	for k, v := range row {
		out[k] = fmt.Sprintf("%T", v)
	}
	return out
}

func sameCounts(a, b map[int]int) bool {
	if len(a) != len(b) {
		return false
	}
	for k, v := range a {
		if b[k] != v {
			return false
		}
	}
	return true
}
