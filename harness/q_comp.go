package main

// Component correspondences for the handle pool and the query slot: random op
// sequences on the real fileHandlePool / querySlot (verif_export_q.go) against
// Model/HandlePool.v and Model/Slots.v.

import (
	"context"
	"fmt"
	"io"
	"runtime"
	"strings"
	"time"

	bs "github.com/danthegoodman1/bloomsearch"
)

func coqFileID(p string) string { return coqZ(int64(p[len(p)-1] - 'a')) }

func runPoolScenario(c *Ctx) (term string, desc map[string]any, key string, nontrivial bool) {
	log := installLog()
	defer removeLog()
	st := newQStore()
	files := []string{"fa", "fb", "fc"}
	for _, f := range files {
		st.files[f] = []byte("content of " + f)
	}
	failOpen := map[int]bool{}
	st.fault = func(kind string, nth int, pointer string) error {
		if kind == "OpenFile" && failOpen[nth] {
			return errInjected
		}
		return nil
	}
	for i := 0; i < 40; i++ {
		if c.chance(0.15) {
			failOpen[i] = true
		}
	}
	pool := bs.VerifNewHandlePool(st)
	ctx := context.Background()
	nReaders := 2 + c.intn(3)
	type held struct {
		h io.ReadSeekCloser
		f string
	}
	holding := map[int]*held{}
	closedAll := false
	var ops []string
	var plan []string
	mainGid := curGoroutineID()

	// asynchronous acquire: the reader's OpenFile is parked inside the store while other ops run
	var asyncReader = -1
	var asyncActor *actor
	var asyncRes *held
	var asyncErr error
	gate := make(chan struct{})
	gated := false
	st.onCall = func(kind, pointer string) {
		if kind == "OpenFile" && curGoroutineID() != mainGid && gated {
			<-gate
		}
	}

	pos := 0
	flush := func(reader int) {
		evs := log.snapshot()
		for ; pos < len(evs); pos++ {
			e := evs[pos]
			r := reader
			if asyncActor != nil && e.Gid == asyncActor.gid {
				r = asyncReader
			}
			switch e.Kind {
			case "pool.retain":
				ops = append(ops, fmt.Sprintf("(PRetain %s, PONone)", coqFileID(e.S)))
			case "pool.release":
				ops = append(ops, fmt.Sprintf("(PRelease %s, PONone)", coqFileID(e.S)))
			case "pool.acquire.idle":
				ops = append(ops, fmt.Sprintf("(PAcquireIdle %s %s, @H%d)", coqNat(r), coqFileID(e.S), r))
			case "pool.acquire.open":
				ops = append(ops, fmt.Sprintf("(PAcquireOpen %s %s, PONone)", coqNat(r), coqFileID(e.S)))
			case "pool.acquire.closed":
				ops = append(ops, fmt.Sprintf("(PAcquireClosed %s %s, PONone)", coqNat(r), coqFileID(e.S)))
			case "st.open.ok":
				ops = append(ops, fmt.Sprintf("(POpenOk %s, POHeld %s %s)", coqNat(r), coqNat(r), coqNat(int(e.B))))
			case "st.open.fail":
				ops = append(ops, fmt.Sprintf("(POpenFail %s, PONone)", coqNat(r)))
			case "pool.put.idle":
				ops = append(ops, fmt.Sprintf("(PPut %s %s false, PONone)", coqNat(r), coqFileID(e.S)))
			case "pool.put.close":
				ops = append(ops, fmt.Sprintf("(PPut %s %s true, PONone)", coqNat(r), coqFileID(e.S)))
			case "pool.discard":
				ops = append(ops, fmt.Sprintf("(PDiscard %s, PONone)", coqNat(r)))
			case "pool.closeall":
				ops = append(ops, "(PCloseAll, PONone)")
			}
		}
	}
	fixHeld := func(reader int, h io.ReadSeekCloser) {
		// the handle acquire returned from the idle set: fill in the observation
		ord := h.(*qHandle).ord
		tag := fmt.Sprintf("@H%d", reader)
		for i := len(ops) - 1; i >= 0; i-- {
			if strings.Contains(ops[i], tag) {
				ops[i] = strings.Replace(ops[i], tag, fmt.Sprintf("POHeld %s %s", coqNat(reader), coqNat(ord)), 1)
				break
			}
		}
	}
	finishAsync := func() {
		if asyncActor == nil {
			return
		}
		if gated {
			close(gate)
			gated = false
		}
		asyncActor.wait()
		flush(asyncReader)
		if asyncErr == nil && asyncRes != nil {
			holding[asyncReader] = asyncRes
			fixHeld(asyncReader, asyncRes.h)
		}
		asyncActor.stop()
		asyncActor, asyncReader, asyncRes = nil, -1, nil
	}

	steps := 10 + c.intn(40)
	for i := 0; i < steps; i++ {
		r := c.intn(nReaders)
		f := files[c.intn(len(files))]
		switch x := c.intn(100); {
		case x < 18:
			plan = append(plan, "retain:"+f)
			pool.Retain([]byte(f))
			flush(r)
		case x < 33:
			plan = append(plan, "release:"+f)
			pool.Release([]byte(f))
			flush(r)
		case x < 63:
			if holding[r] != nil || r == asyncReader {
				continue
			}
			if asyncActor == nil && c.chance(0.3) {
				plan = append(plan, fmt.Sprintf("acquire-async%d:%s", r, f))
				asyncReader = r
				asyncActor = newActor()
				gate = make(chan struct{})
				gated = true
				ff := f
				asyncActor.start(func() {
					h, err := pool.Acquire(ctx, []byte(ff))
					asyncErr = err
					if err == nil {
						asyncRes = &held{h: h, f: ff}
					} else {
						asyncRes = nil
					}
				})
				asyncActor.settle(300 * time.Microsecond)
				flush(r)
				continue
			}
			plan = append(plan, fmt.Sprintf("acquire%d:%s", r, f))
			h, err := pool.Acquire(ctx, []byte(f))
			flush(r)
			if err == nil {
				holding[r] = &held{h: h, f: f}
				fixHeld(r, h)
			}
		case x < 80:
			if hd := holding[r]; hd != nil {
				plan = append(plan, fmt.Sprintf("put%d", r))
				pool.Put([]byte(hd.f), hd.h)
				delete(holding, r)
				flush(r)
			}
		case x < 88:
			if hd := holding[r]; hd != nil {
				plan = append(plan, fmt.Sprintf("discard%d", r))
				pool.Discard(hd.h)
				delete(holding, r)
				flush(r)
			}
		case x < 94:
			finishAsync()
		default:
			if !closedAll && c.chance(0.3) {
				plan = append(plan, "closeall")
				pool.CloseAll()
				closedAll = true
				flush(r)
			}
		}
	}
	finishAsync()
	// every reader hands its handle back, then the query tears the pool down
	for r := 0; r < nReaders; r++ {
		if hd := holding[r]; hd != nil {
			if c.chance(0.7) {
				pool.Put([]byte(hd.f), hd.h)
			} else {
				pool.Discard(hd.h)
			}
			flush(r)
		}
	}
	if !closedAll {
		pool.CloseAll()
		flush(0)
	}
	refs, idle, closed := pool.VerifPoolState()
	var fitems []string
	for _, f := range sortedKeys(refs) {
		fitems = append(fitems, fmt.Sprintf("(%s, (%s, %s))", coqFileID(f), coqNat(refs[f]), coqNat(idle[f])))
	}
	for _, p := range st.takeProblems() {
		c.violation("q-pool-handle", "handle pool component: "+p, map[string]any{"plan": plan})
	}
	for i := range ops {
		if strings.Contains(ops[i], "@H") {
			c.mismatch("q-pool-log", "handle pool component: an idle acquire without a returned handle", map[string]any{"plan": plan})
			return "", nil, "", false
		}
	}
	term = fmt.Sprintf("QPool {| pc_ops := %s; pc_files := %s; pc_isclosed := %s; pc_nopened := %s; pc_closes := %s |}",
		coqList(ops), coqList(fitems), coqBool(closed), coqNat(st.opened()), qCoqNatList(st.closeOrdinals()))
	desc = map[string]any{"kind": "pool", "plan": strings.Join(plan, " "), "opened": st.opened(), "closes": len(st.closeOrdinals())}
	c.dist("pool_ops", qBucket(len(ops)))
	return term, desc, strings.Join(plan, " "), st.opened() > 0 && len(ops) >= 8
}

func runSlotScenario(c *Ctx) (term string, desc map[string]any, key string, nontrivial bool) {
	log := installLog()
	defer removeLog()
	_ = log
	capN := 1 + c.intn(3)
	n := 2 + c.intn(4)
	sem := make(chan struct{}, capN)
	type wk struct {
		slot   *bs.VerifSlot
		cancel context.CancelFunc
		done   bool // ctx cancelled
	}
	ws := make([]*wk, n)
	for i := range ws {
		ctx, cancel := context.WithCancel(context.Background())
		ws[i] = &wk{slot: bs.VerifNewSlot(sem, ctx), cancel: cancel}
	}
	var calls []string
	var plan []string
	add := func(call string, observe bool) {
		if observe {
			calls = append(calls, fmt.Sprintf("(%s, Some %s)", call, coqNat(len(sem))))
		} else {
			calls = append(calls, fmt.Sprintf("(%s, None)", call))
		}
	}
	maxLen := 0
	handoffs := 0
	steps := 10 + c.intn(40)
	for i := 0; i < steps; i++ {
		w := c.intn(n)
		switch x := c.intn(100); {
		case x < 45:
			k := ws[w]
			if !k.slot.Held() && len(sem) == capN && !k.done {
				// would block: let another worker's release wake it
				holder := -1
				for j, o := range ws {
					if o.slot.Held() {
						holder = j
					}
				}
				if holder < 0 {
					continue
				}
				a := newActor()
				var ret bool
				a.start(func() { ret = k.slot.Acquire() })
				a.settle(200 * time.Microsecond)
				switch v := c.intn(4); {
				case v == 0:
					// the holder's release hands its slot to the parked worker and that worker's query ends right
					// behind the hand-off, before the worker runs again (one P: a goroutine made runnable by the
					// channel hand-off cannot run before this one yields): the worker owns the slot it was handed
					plan = append(plan, fmt.Sprintf("acq%d(blocked)+rel%d+cancel%d", w, holder, w))
					prev := runtime.GOMAXPROCS(1)
					ws[holder].slot.Release()
					k.cancel()
					runtime.GOMAXPROCS(prev)
					k.done = true
					a.wait()
					a.stop()
					handoffs++
					add(fmt.Sprintf("CallRelease %s", coqNat(holder)), false)
					add(fmt.Sprintf("CallAcquire %s %s", coqNat(w), coqBool(ret)), true)
				case v == 1:
					// the query ends first: the parked worker gives up, the release that follows wakes nobody
					plan = append(plan, fmt.Sprintf("acq%d(blocked)+cancel%d+rel%d", w, w, holder))
					k.cancel()
					k.done = true
					a.wait()
					a.stop()
					add(fmt.Sprintf("CallAcquire %s %s", coqNat(w), coqBool(ret)), true)
					ws[holder].slot.Release()
					add(fmt.Sprintf("CallRelease %s", coqNat(holder)), true)
				default:
					plan = append(plan, fmt.Sprintf("acq%d(blocked)+rel%d", w, holder))
					ws[holder].slot.Release()
					a.wait()
					a.stop()
					add(fmt.Sprintf("CallRelease %s", coqNat(holder)), false)
					add(fmt.Sprintf("CallAcquire %s %s", coqNat(w), coqBool(ret)), true)
				}
				continue
			}
			plan = append(plan, fmt.Sprintf("acq%d", w))
			ret := k.slot.Acquire()
			add(fmt.Sprintf("CallAcquire %s %s", coqNat(w), coqBool(ret)), true)
		case x < 85:
			plan = append(plan, fmt.Sprintf("rel%d", w))
			ws[w].slot.Release()
			add(fmt.Sprintf("CallRelease %s", coqNat(w)), true)
		default:
			if !ws[w].done {
				plan = append(plan, fmt.Sprintf("cancel%d", w))
				ws[w].cancel()
				ws[w].done = true
			}
		}
		if len(sem) > maxLen {
			maxLen = len(sem)
		}
	}
	// every worker exits: it releases what it holds (a no-op for an unheld slot); the whole budget is free again
	for i, k := range ws {
		k.slot.Release()
		add(fmt.Sprintf("CallRelease %s", coqNat(i)), true)
		k.cancel()
	}
	end := len(sem)
	if end != 0 {
		c.violation("q-slot-leak", fmt.Sprintf("query slot component: every worker released its slot, the semaphore still holds %d of %d", end, capN), map[string]any{"plan": plan})
	}
	term = fmt.Sprintf("QSlot {| sc_cap := %s; sc_workers := %s; sc_calls := %s; sc_end := %s |}", coqNat(capN), coqNat(n), coqList(calls), coqNat(end))
	desc = map[string]any{"kind": "slot", "cap": capN, "workers": n, "plan": strings.Join(plan, " "), "max_len": maxLen, "handoffs": handoffs, "end": end}
	c.dist("slot_cap", fmt.Sprint(capN))
	c.dist("slot_handoffs", fmt.Sprint(handoffs))
	return term, desc, fmt.Sprintf("%d/%d/%s", capN, n, strings.Join(plan, " ")), maxLen == capN
}
