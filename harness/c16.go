package main

// C16: random call sequences against the real FileSystemDataStore (several writers open at
// once, forced name draws cycling through three names, injected os failures), compared call
// by call with Model/FsStore.v: hook-event log = the model's plan for the call, directory
// listing with bytes, GetMaybeFilesForQuery pointers, handle reads; and the specification
// "the scan lists exactly the files whose Close succeeded and that were not tombstoned, each
// with exactly the bytes written" evaluated after every call (here and in Coq).

import (
	"bytes"
	"context"
	"fmt"
	"io"
	"os"
	"path/filepath"
	"sort"
	"strings"
	"time"

	bs "github.com/danthegoodman1/bloomsearch"
)

func init() { register("c16", []string{"C16"}, runC16) }

const runnerF = "Model.FsStore Cases.RunnerF"
const sigD8 = "tombstone-while-open+name-reuse"

// bloomFilePool builds small valid bloom files with the real engine on an in-memory store.
func bloomFilePool(c *Ctx, n int) [][]byte {
	var out [][]byte
	for i := 0; i < n; i++ {
		cfg := bs.DefaultBloomSearchEngineConfig()
		cfg.BloomFalsePositiveRate = 0.3
		cfg.RowDataCompression = []bs.CompressionType{bs.CompressionNone, bs.CompressionSnappy}[c.intn(2)]
		cfg.MaxBufferedTime = time.Hour
		store := newMemDataStore()
		eng, err := bs.NewBloomSearchEngine(cfg, bs.NewMemoryMetaStore(), store)
		must(err)
		eng.Start()
		rows := []map[string]any{}
		for j := 0; j <= c.intn(3); j++ {
			rows = append(rows, map[string]any{"f": i, "r": j, "s": fmt.Sprintf("v%d", c.intn(1000))})
		}
		must(eng.IngestRows(context.Background(), rows, nil))
		must(eng.Flush(context.Background()))
		must(eng.Stop(context.Background()))
		for _, d := range store.snapshotFiles() {
			out = append(out, d)
		}
	}
	return out
}

// storeHasFix probes the tree once: does Close refuse after its .tmp was replaced (fix of D8)?
func storeHasFix(scratch string) bool {
	dir := filepath.Join(scratch, "fixprobe")
	os.RemoveAll(dir)
	defer os.RemoveAll(dir)
	st := bs.NewFileSystemDataStore(dir)
	st.VerifSetFileNameDraw(func() string { return "p" })
	ctx := context.Background()
	a, pa, err := st.CreateFile(ctx)
	must(err)
	a.Write([]byte("A"))
	must(st.TombstoneFile(ctx, pa))
	b, _, err := st.CreateFile(ctx)
	if err != nil {
		return false
	}
	b.Write([]byte("B"))
	errA := a.Close()
	if ab, ok := b.(interface{ Abort() error }); ok {
		ab.Abort()
	}
	st.TombstoneFile(ctx, pa)
	return errA != nil
}

type c16Step struct {
	Op      string   `json:"op"`
	Writer  int      `json:"writer,omitempty"`
	Base    string   `json:"base,omitempty"`
	Bytes   int      `json:"bytes,omitempty"`
	Fault   int      `json:"fault"`
	Err     string   `json:"err,omitempty"`
	Labels  []string `json:"labels,omitempty"`
	Listing []string `json:"listing,omitempty"`
	Scan    []string `json:"scan,omitempty"`
}

func coqOptNat(i int) string {
	if i < 0 {
		return "None"
	}
	return fmt.Sprintf("(Some %d)", i)
}

func runC16(c *Ctx) {
	// a store that no longer behaves like the model can make the harness itself trip (an unexpected
	// error, an index out of range): report that as a broken correspondence, not as a crash
	defer func() {
		if r := recover(); r != nil {
			c.mismatch("harness-panic", fmt.Sprintf("the harness could not drive the store as the model expects: %v", r), nil)
		}
	}()
	c.rep.Rule = "sequences of 8-40 calls (CreateFile/Write/Close/Abort/TombstoneFile/Update/OpenFile/handle reads) by up to 4 writers open at once, " +
		"name draws forced through a cyclic stream over 3 names, payloads: arbitrary bytes incl. empty, and valid bloom files written in 1-3 chunks; " +
		"real os failures injected at reservation/temp create and the open of the directory fsync (EMFILE), the directory's fsync(2) itself (EIO through a per-thread seccomp filter, when the platform allows), Sync (handle closed early), rename/remove (immutable directory, when the platform allows); " +
		"about a third of the TombstoneFile calls hit a pointer whose writer is still open; the root directory's own path contains .dat/.tmp in about half of the sequences. " +
		"After every call: hook-event log = model plan, listing+bytes, scan pointers, reads, spec predicate, no artifact of a tombstoned pointer left, no path outside the root touched. " +
		"Non-trivial: a sequence with at least one successful Close and one removal or collision. Distinct by call text."
	scratch := filepath.Join(c.Out, "fs")
	clearImmutableTree(scratch)
	os.RemoveAll(scratch)
	must(os.MkdirAll(scratch, 0o755))
	fixed := storeHasFix(scratch)
	c.dist("tree", fmt.Sprintf("own_check=%v", fixed))
	sh := c.newShard("f16", runnerF, "caseF", "mismatches", "violations")
	sh.limit = 40
	pool := bloomFilePool(c, 8)
	nSeq := c.pick(500, 8000)
	for i := 0; i < nSeq; i++ {
		dir, layout := famFRoot(c, scratch, "s", i)
		c.dist("c16_root", layout)
		c16Sequence(c, sh, dir, i, fixed, pool)
	}
	c16Exhaust(c, sh, filepath.Join(scratch, "exhaust"), fixed)
	for i := 0; i < c.pick(8, 60); i++ {
		c16ScanDuringRemoval(c, filepath.Join(scratch, fmt.Sprintf("scanrm%d", i)), i, pool)
	}
	if !immutableProbe.ok {
		c.rep.Notes = append(c.rep.Notes, "immutable-directory faults (rename/remove failures) not available on this platform; those branches were exercised in the model only")
	}
	if !fsyncFailProbe.ok {
		c.rep.Notes = append(c.rep.Notes, "a failing fsync(2) (seccomp filter) cannot be injected on this platform; the directory fsync was only failed through the open of the directory")
	}
}

func c16Exhaust(c *Ctx, sh *shard, dir string, fixed bool) {
	names := []string{"a", "b", "c"}
	r := newFsRig(dir, nil)
	defer r.close()
	ctx := context.Background()
	for _, n := range names {
		n := n
		r.store.VerifSetFileNameDraw(func() string { return n })
		_, _, err := r.store.CreateFile(ctx)
		must(err)
	}
	k := 0
	r.store.VerifSetFileNameDraw(func() string { k++; return names[(k-1)%3] })
	_, _, err := r.store.CreateFile(ctx)
	term := fmt.Sprintf("CExhaust %s (N.to_nat %d%%N) %s %d %s", coqBool(fixed), bs.VerifMaxCreateFileAttempts, coqStrList(names), k, coqBool(err == nil))
	desc := map[string]any{"kind": "exhaust", "draws": k, "err": fmt.Sprint(err)}
	sh.add(c, "("+term+")%nat", desc)
	c.count([]string{"C16"}, term, true, desc)
	if err == nil {
		c.violation("c16-exhaust", "CreateFile succeeded although every name was taken", desc)
	}
}

func c16Sequence(c *Ctx, sh *shard, dir string, seq int, fixed bool, pool [][]byte) {
	ctx := context.Background()
	names := []string{"a", "b", "c"}
	nd := 3 + c.intn(8)
	draws := make([]string, nd)
	for i := range draws {
		draws[i] = names[c.intn(3)]
	}
	for _, n := range names { // every name appears, so a free name is eventually drawn
		if !strings.Contains(strings.Join(draws, ""), n) {
			draws = append(draws, n)
		}
	}
	bloomStream := c.chance(0.35)
	r := newFsRig(dir, draws)
	r.strict = true
	defer func() {
		r.close()
		os.RemoveAll(dir)
	}()
	in := newInterner()
	// Two kinds of sequences: with injected os failures and a well-behaved caller (no TombstoneFile
	// or Update of a pointer whose writer is still open), or without failures and with a caller
	// that tombstones pointers of open writers. (A failed Close followed by a tombstone of the
	// still-open pointer and a late Abort acts on names the writer no longer owns; the guarded
	// theorem excludes it and no store-side check can detect it once the handle is closed.)
	faultRate := 0.15
	unguarded := c.chance(0.45)
	if unguarded {
		faultRate = 0
	}

	type plannedFile struct {
		chunks [][]byte
		next   int
	}
	plans := map[int]*plannedFile{}
	var handles []io.ReadSeekCloser
	spec := map[string][]byte{}       // base -> bytes: Close succeeded, not tombstoned since
	window := map[string][]byte{}     // base -> bytes: Close renamed, then failed at the directory fsync
	tombOpen := map[int]bool{}        // writer id -> its pointer was tombstoned while it was open
	reused := map[int]bool{}          // ... and the name was handed to a newer writer afterwards
	var steps []string
	var log []c16Step
	nontrivial := struct{ closed, removed, collided bool }{}
	var goViolation string
	d8case := false

	live := func() []*fsWriter {
		var out []*fsWriter
		for _, w := range r.writers {
			if w != nil && !w.done {
				out = append(out, w)
			}
		}
		return out
	}
	nameFree := func() bool {
		es := snapshotDir(dir)
		taken := map[string]bool{}
		for _, e := range es {
			taken[e.Base] = true
		}
		for _, n := range names {
			if !taken[n] {
				return true
			}
		}
		return false
	}
	observe := func(opTerm string, st *c16Step, res fsCallResult, okOverride *bool, ptr *string, read []byte, haveRead bool) {
		listing := snapshotDir(dir)
		bases, err := scanPointers(ctx, r.store)
		if err != nil && goViolation == "" {
			goViolation = fmt.Sprintf("step %d: the directory scan misbehaved: %v", len(log), err)
		}
		content := map[string][]byte{}
		for _, e := range listing {
			if e.Ext == "Dat" {
				content[e.Base] = e.Data
			}
			st.Listing = append(st.Listing, fmt.Sprintf("%s.%s:%d", e.Base, strings.ToLower(e.Ext), len(e.Data)))
		}
		scanItems := make([]string, len(bases))
		for i, b := range bases {
			scanItems[i] = coqPair(coqS(b), in.ref(content[b]))
			st.Scan = append(st.Scan, b)
		}
		ok := res.err == nil
		if okOverride != nil {
			ok = *okOverride
		}
		ptrTerm := "None"
		if ptr != nil {
			ptrTerm = "(Some " + coqS(*ptr) + ")"
		}
		readTerm := "None"
		if haveRead {
			readTerm = "(Some " + in.ref(read) + ")"
		}
		for _, l := range res.labels {
			st.Labels = append(st.Labels, l.String())
		}
		if res.err != nil {
			st.Err = res.err.Error()
		}
		steps = append(steps, fmt.Sprintf("(%s, mkObs %s %s %s %s %s %s true)", opTerm, coqLabels(res.labels, in), coqBool(ok), ptrTerm, readTerm, coqListing(listing, in), coqList(scanItems)))
		log = append(log, *st)
		// the specification on the Go side
		if goViolation == "" && len(r.foreign) > 0 {
			goViolation = fmt.Sprintf("step %d (%s): the store touched a path outside its root directory %s: %v", len(log)-1, st.Op, dir, r.foreign)
		}
		if goViolation == "" && st.Op == "TombstoneFile" && res.err == nil {
			for _, e := range listing {
				if e.Base == st.Base {
					goViolation = fmt.Sprintf("step %d: TombstoneFile(%s.dat) returned nil and left %s.%s (%d bytes) behind", len(log)-1, st.Base, e.Base, strings.ToLower(e.Ext), len(e.Data))
				}
			}
		}
		if goViolation == "" {
			for b, want := range spec {
				if got, okc := content[b]; !okc || !bytes.Equal(got, want) {
					goViolation = fmt.Sprintf("step %d (%s): pointer %s.dat was closed successfully with %d bytes and not tombstoned, the directory has %d bytes (present=%v)", len(log)-1, st.Op, b, len(want), len(got), okc)
				}
			}
			wantScan := []string{}
			for b, d := range spec {
				if validBloom(d) {
					wantScan = append(wantScan, b)
				}
			}
			sort.Strings(wantScan)
			// a complete file whose Close failed at the directory fsync (injected) may be listed
			// until it is aborted or tombstoned
			inScan := map[string]bool{}
			okScan := true
			for _, b := range bases {
				inScan[b] = true
				_, isSpec := spec[b]
				w, isWin := window[b]
				if !isSpec && !(isWin && bytes.Equal(w, content[b])) {
					okScan = false
				}
			}
			for _, b := range wantScan {
				okScan = okScan && inScan[b]
			}
			if goViolation == "" && !okScan {
				goViolation = fmt.Sprintf("step %d (%s): scan lists %v, files closed successfully and not tombstoned: %v", len(log)-1, st.Op, bases, wantScan)
			}
		}
	}

	nOps := 8 + c.intn(33)
	for i := 0; i < nOps; i++ {
		lv := live()
		x := c.rng.Float64()
		fault := func(choices ...int) int {
			if c.chance(faultRate) {
				return choices[c.intn(len(choices))]
			}
			return -1
		}
		switch {
		case x < 0.22 && len(lv) < 4 && nameFree():
			// CreateFile, possibly with an EMFILE at a reservation or temp create
			var f *fsFault
			if c.chance(faultRate) {
				f = &fsFault{kind: []string{"fs.reserve", "fs.tmpcreate"}[c.intn(2)], nth: c.intn(2)}
			}
			fw, res := r.createFile(ctx, f)
			st := &c16Step{Op: "CreateFile", Fault: res.faultIdx}
			var ptr *string
			if fw != nil {
				st.Writer, st.Base = fw.id, fw.base
				ptr = &fw.base
				pf := &plannedFile{}
				if bloomStream && c.chance(0.8) {
					data := pool[c.intn(len(pool))]
					k := 1 + c.intn(3)
					for j := 0; j < k; j++ {
						pf.chunks = append(pf.chunks, data[j*len(data)/k:(j+1)*len(data)/k])
					}
				}
				plans[fw.id] = pf
				for id := range tombOpen {
					if w := r.writers[id]; w != nil && w.base == fw.base && id != fw.id {
						reused[id] = true
					}
				}
				for _, l := range res.labels {
					if l.R == "CExists" {
						nontrivial.collided = true
					}
				}
			}
			c.dist("c16_op", "CreateFile")
			if res.faultIdx >= 0 {
				c.dist("c16_fault", "create")
			}
			observe(fmt.Sprintf("FCreate %s", coqOptNat(res.faultIdx)), st, res, nil, ptr, nil, false)
		case x < 0.50 && len(lv) > 0:
			fw := lv[c.intn(len(lv))]
			var p []byte
			if pf := plans[fw.id]; pf != nil && pf.next < len(pf.chunks) {
				p = pf.chunks[pf.next]
				pf.next++
			} else {
				p = make([]byte, c.intn(25)*c.intn(2))
				for j := range p {
					p[j] = byte(c.intn(256))
				}
			}
			n, res := r.write(fw, p)
			c.dist("c16_op", "Write")
			observe(fmt.Sprintf("FWrite %d %s %d", fw.id, in.ref(p), n), &c16Step{Op: "Write", Writer: fw.id, Bytes: len(p), Fault: -1}, res, nil, nil, nil, false)
		case x < 0.66 && len(r.writers) > 0:
			// Close: mostly a live writer, sometimes one that is already finished
			var fw *fsWriter
			if len(lv) > 0 && c.chance(0.85) {
				fw = lv[c.intn(len(lv))]
			} else {
				fw = r.writers[c.intn(len(r.writers))]
			}
			if fw == nil {
				continue
			}
			choices := []int{0, 3}
			if r.immOK {
				choices = append(choices, 2)
			}
			if r.fsyncOK {
				choices = append(choices, 4)
			}
			f := fault(choices...)
			wasDone := fw.done
			res := r.closeWriter(fw, f)
			if f >= 0 {
				c.dist("c16_fault", fmt.Sprintf("close@%d", f))
			}
			f = res.faultIdx // the model's numbering (one failure point for the directory fsync)
			if res.err == nil {
				spec[fw.base] = append([]byte(nil), fw.written...)
				nontrivial.closed = true
				if tombOpen[fw.id] && reused[fw.id] {
					d8case = true
				}
			}
			_ = wasDone
			if n := len(res.labels); res.err != nil && n > 0 && res.labels[n-1].K == "DirSync" {
				window[fw.base] = append([]byte(nil), fw.written...)
			}
			c.dist("c16_op", "Close")
			// the model derives the failing call from its own state when the handle is already closed
			observe(fmt.Sprintf("FClose %d %s", fw.id, coqOptNat(f)), &c16Step{Op: "Close", Writer: fw.id, Base: fw.base, Fault: f}, res, nil, nil, nil, false)
		case x < 0.74 && len(r.writers) > 0:
			var fw *fsWriter
			if len(lv) > 0 && c.chance(0.85) {
				fw = lv[c.intn(len(lv))]
			} else {
				fw = r.writers[c.intn(len(r.writers))]
			}
			if fw == nil {
				continue
			}
			f := -1
			if r.immOK {
				f = fault(0, 1)
			}
			res := r.abortWriter(fw, f)
			for _, l := range res.labels {
				if l.K == "AbortRm" && l.Ext == "Dat" && l.R == "ROk" {
					delete(window, fw.base)
				}
			}
			c.dist("c16_op", "Abort")
			if f >= 0 {
				c.dist("c16_fault", fmt.Sprintf("abort@%d", f))
			}
			observe(fmt.Sprintf("FAbort %d %s", fw.id, coqOptNat(f)), &c16Step{Op: "Abort", Writer: fw.id, Base: fw.base, Fault: f}, res, nil, nil, nil, false)
		case x < 0.86:
			// TombstoneFile: usually a pointer nobody is writing, sometimes one whose writer is open
			var cand []string
			busy := map[string]bool{}
			for _, w := range lv {
				busy[w.base] = true
			}
			hitOpen := unguarded && c.chance(0.45)
			for _, n := range names {
				if busy[n] == hitOpen {
					cand = append(cand, n)
				}
			}
			if len(cand) == 0 {
				if !unguarded {
					continue
				}
				cand = names
			}
			b := cand[c.intn(len(cand))]
			f := -1
			if r.immOK {
				f = fault(0, 1)
			}
			for _, w := range lv {
				if w.base == b {
					tombOpen[w.id] = true
					c.dist("c16_guard", "tombstone-while-open")
				}
			}
			res := r.tombstone(ctx, b, f)
			if len(res.labels) > 0 && res.labels[0].R == "ROk" {
				delete(spec, b)
				delete(window, b)
				nontrivial.removed = true
			}
			c.dist("c16_op", "TombstoneFile")
			observe(fmt.Sprintf("FTomb %s %s", coqS(b), coqOptNat(f)), &c16Step{Op: "TombstoneFile", Base: b, Fault: f}, res, nil, nil, nil, false)
		case x < 0.89:
			var bsel []string
			for _, n := range names {
				busyName := false
				for _, w := range lv {
					busyName = busyName || w.base == n
				}
				if !busyName && c.chance(0.5) {
					bsel = append(bsel, n)
				}
			}
			res := r.update(ctx, bsel)
			for j, l := range res.labels {
				if l.R == "ROk" {
					delete(spec, bsel[j])
					delete(window, bsel[j])
					nontrivial.removed = true
				}
			}
			c.dist("c16_op", "Update")
			observe(fmt.Sprintf("FUpdate %s", coqStrList(bsel)), &c16Step{Op: "Update", Base: strings.Join(bsel, ","), Fault: -1}, res, nil, nil, nil, false)
		case x < 0.95:
			b := names[c.intn(3)]
			h, err := r.store.OpenFile(ctx, r.pointer(b))
			res := fsCallResult{labels: []fsLabel{{K: "Open", Base: b, Ok: err == nil}}, err: err, faultIdx: -1}
			var data []byte
			if err == nil {
				data, err = io.ReadAll(h)
				must(err)
				handles = append(handles, h)
			}
			c.dist("c16_op", "OpenFile")
			observe(fmt.Sprintf("FOpen %s", coqS(b)), &c16Step{Op: "OpenFile", Base: b, Fault: -1}, res, nil, nil, data, res.err == nil)
		default:
			if len(handles) == 0 {
				continue
			}
			k := c.intn(len(handles))
			_, err := handles[k].Seek(0, io.SeekStart)
			must(err)
			data, err := io.ReadAll(handles[k])
			must(err)
			c.dist("c16_op", "ReadHandle")
			observe(fmt.Sprintf("FReadH %d", k), &c16Step{Op: "ReadHandle", Writer: k, Fault: -1}, fsCallResult{faultIdx: -1}, nil, nil, data, true)
		}
	}
	for _, h := range handles {
		h.Close()
	}
	for _, w := range r.writers {
		if w != nil {
			if f := bs.VerifWriterFile(w.w); f != nil {
				f.Close()
			}
		}
	}
	term := fmt.Sprintf("CSeq %s (N.to_nat %d%%N) %s %s (fun t => %s)", coqBool(fixed), bs.VerifMaxCreateFileAttempts, in.table(validBloom), coqStrList(draws), coqList(steps))
	desc := map[string]any{"kind": "sequence", "seq": seq, "root": dir, "draws": draws, "bloom_stream": bloomStream, "unguarded_caller": unguarded, "steps": log, "own_check": fixed}
	if d8case {
		desc["sig"] = sigD8
		c.dist("c16_guard", "stale-writer-close-returned-nil")
	}
	sh.add(c, "("+term+")%nat", desc)
	c.count([]string{"C16"}, term, nontrivial.closed && (nontrivial.removed || nontrivial.collided), map[string]any{"seq": seq, "draws": draws, "calls": len(log), "bloom_stream": bloomStream})
	c.dist("c16_stream", map[bool]string{true: "bloom", false: "bytes"}[bloomStream])
	c.dist("c16_caller", map[bool]string{true: "tombstones-open-pointers,no-faults", false: "well-behaved,faults"}[unguarded])
	for _, m := range r.misreported {
		c.mismatch("c16-os-result", fmt.Sprintf("sequence %d: %s", seq, m), desc)
	}
	if goViolation != "" {
		sig := "c16-spec"
		if d8case {
			sig = sigD8
		}
		c.violation(sig, goViolation, desc)
	}
	c.rep.TracesValidated++
}

// c16ScanDuringRemoval: the directory scan is an iterator, so its caller can act between two yields. Several
// committed files; at the k-th yield a committed file that has not been yielded yet is tombstoned (directly or
// through Update). The scan goes on: no error, and every file that was committed and never tombstoned is
// yielded exactly once (the removed one may or may not appear). Judged on the Go side; the scan of the model is
// one step.
func c16ScanDuringRemoval(c *Ctx, dir string, idx int, pool [][]byte) {
	defer func() {
		if r := recover(); r != nil {
			c.mismatch("harness-panic", fmt.Sprintf("scan-during-removal %d: %v", idx, r), nil)
		}
		os.RemoveAll(dir)
	}()
	ctx := context.Background()
	os.RemoveAll(dir)
	must(os.MkdirAll(dir, 0o755))
	st := bs.NewFileSystemDataStore(dir)
	n := 4 + c.intn(4)
	committed := map[string]bool{}
	for i := 0; i < n; i++ {
		w, ptr, err := st.CreateFile(ctx)
		must(err)
		_, err = w.Write(pool[c.intn(len(pool))])
		must(err)
		must(w.Close())
		committed[string(ptr)] = true
	}
	at := c.intn(n - 1) // the yield at which the removal happens
	viaUpdate := idx%2 == 1
	yielded := map[string]int{}
	removed := ""
	var scanErr error
	k := 0
	for f, err := range st.GetMaybeFilesForQuery(ctx, nil) {
		if err != nil {
			scanErr = err
			continue
		}
		yielded[string(f.PointerBytes)]++
		if k == at {
			var rest []string
			for p := range committed {
				if yielded[p] == 0 {
					rest = append(rest, p)
				}
			}
			sort.Strings(rest)
			if len(rest) > 0 {
				removed = rest[c.intn(len(rest))]
				if viaUpdate {
					must(st.Update(ctx, nil, []bs.DeleteOperation{{FilePointerBytes: []byte(removed)}}))
				} else {
					must(st.TombstoneFile(ctx, []byte(removed)))
				}
			}
		}
		k++
	}
	desc := map[string]any{"kind": "scan-during-removal", "files": n, "removed_at_yield": at, "via_update": viaUpdate, "removed": filepath.Base(removed)}
	var problems []string
	if scanErr != nil {
		problems = append(problems, "the scan reported an error: "+scanErr.Error())
	}
	for p := range committed {
		if p == removed {
			continue
		}
		if yielded[p] != 1 {
			problems = append(problems, fmt.Sprintf("%s (committed, never tombstoned) was yielded %d times", filepath.Base(p), yielded[p]))
		}
	}
	for p := range yielded {
		if !committed[p] {
			problems = append(problems, fmt.Sprintf("%s was yielded but never committed", filepath.Base(p)))
		}
	}
	c.count([]string{"C16"}, fmt.Sprintf("scanrm %d %d %d %v", idx, n, at, viaUpdate), removed != "", desc)
	c.dist("c16_scan_during_removal", fmt.Sprintf("via_update=%v removed=%v", viaUpdate, removed != ""))
	if len(problems) > 0 {
		sort.Strings(problems)
		c.violation("c16-scan-during-removal", fmt.Sprintf("scan with a tombstone of a not yet yielded file at yield %d: %s", at, strings.Join(problems, "; ")), desc)
	}
}
