package main

// Cursor component correspondence: random schedules of Next / Close / cancel
// against a real Results (through the verif_export_q.go wrappers), with the
// harness playing the workers and the teardown goroutine. The hook event log
// is translated label by label into Model/Cursor.v steps.

import (
	"context"
	"errors"
	"fmt"
	"strings"
	"sync/atomic"
	"time"

	bs "github.com/danthegoodman1/bloomsearch"
)

const runnerQ = "Model.Stats Model.Cursor Model.HandlePool Model.Slots Model.QueryLTS Cases.RunnerQ"

// idErr is a recorded failure the harness can recognise in Err().
type idErr struct{ id int64 }

func (e idErr) Error() string { return fmt.Sprintf("injected failure #%d", e.id) }

// terr mirrors Model/Cursor.v terr.
type terr struct {
	kind string // "nil", "cancel", "join", "other"
	ids  []int64
	text string
}

func classifyErr(err error) terr {
	if err == nil {
		return terr{kind: "nil"}
	}
	if errors.Is(err, context.Canceled) || errors.Is(err, context.DeadlineExceeded) {
		return terr{kind: "cancel", text: err.Error()}
	}
	var ids []int64
	var walk func(e error) bool
	walk = func(e error) bool {
		if j, ok := e.(interface{ Unwrap() []error }); ok {
			for _, x := range j.Unwrap() {
				if !walk(x) {
					return false
				}
			}
			return true
		}
		var ie idErr
		if errors.As(e, &ie) {
			ids = append(ids, ie.id)
			return true
		}
		return false
	}
	if walk(err) {
		return terr{kind: "join", ids: ids, text: err.Error()}
	}
	return terr{kind: "other", text: err.Error()}
}

func (t terr) coq() string {
	switch t.kind {
	case "nil":
		return "TNil"
	case "cancel":
		return "TCancel"
	case "join":
		items := make([]string, len(t.ids))
		for i, id := range t.ids {
			items[i] = coqZ(id)
		}
		return "(TJoin " + coqList(items) + ")"
	}
	return "(TJoin [(-1)])" // never equal to a model value: reported as mismatch
}

func coqBStat(fileIdx int64, st bs.BlockStats) string {
	return fmt.Sprintf("{| bs_file := %s; bs_off := %s; bs_rows := %s; bs_bytes := %s; bs_trows := %s; bs_tbytes := %s; bs_skipped := %s |}",
		coqZ(fileIdx), coqZ(int64(st.BlockOffset)), coqZ(st.RowsProcessed), coqZ(st.BytesProcessed), coqZ(st.TotalRows), coqZ(st.TotalBytes), coqBool(st.BloomFilterSkipped))
}

func coqSObs(qs bs.QueryStats, fileIdx func(p []byte) int64) string {
	items := make([]string, len(qs.BlockStats))
	for i, b := range qs.BlockStats {
		items[i] = coqBStat(fileIdx(b.FilePointer), b)
	}
	return fmt.Sprintf("{| so_processed := %s; so_skipped := %s; so_rows := %s; so_bytes := %s; so_matched := %s; so_blocks := %s |}",
		coqZ(int64(qs.BlocksProcessed)), coqZ(int64(qs.BlocksSkipped)), coqZ(qs.RowsScanned), coqZ(qs.BytesScanned), coqZ(qs.RowsMatched), coqList(items))
}

type nextObs struct {
	ret bool
	row int64 // -1: nil row
}

func (o nextObs) coq() string {
	return fmt.Sprintf("ONext %s %s", coqBool(o.ret), coqOpt(o.row >= 0, coqZ(o.row)))
}

func qRowID(m map[string]any) int64 {
	if m == nil {
		return -1
	}
	switch v := m["id"].(type) {
	case float64:
		return int64(v)
	case int64:
		return v
	case int:
		return int64(v)
	}
	return -2
}

// cursorScenario is one schedule; it returns the Coq term of the case and a description.
type cursorScenario struct {
	c        *Ctx
	log      *qLog
	pz       *pauser
	r        *bs.Results
	cancel   context.CancelFunc
	consumer *actor
	closers  []*actor
	workers  []*actor
	slots    []*bs.VerifSlot
	sem      chan struct{}

	cancelled  bool
	closeEarly atomic.Bool // a Close call returned before the workers were done
	finished   bool
	nextObs    []nextObs         // consumer's observations in order
	perWorker  map[int][][]int64 // worker index -> batches in issue order
	stats      []bs.BlockStats   // in call order
	errIDs     []int64
	errObs     map[int]terr // log position (index of last event) -> Err() seen
	serial     int
	plan       []string
}

const settleShort = 400 * time.Microsecond

func (sc *cursorScenario) observeErr() {
	n1 := sc.log.len()
	e := sc.r.Err()
	n2 := sc.log.len()
	if n1 == n2 && n1 > 0 {
		sc.errObs[n1-1] = classifyErr(e)
	}
}

func runCursorScenario(c *Ctx, fixed bool, script string) (term string, desc map[string]any, key string, nontrivial bool) {
	log := installLog()
	pz := installPauser()
	defer removeLog()
	// the caller's context: a stdlib one, or one whose cancellation reaches the cursor's derived context late
	ctxKind := []string{"std", "cause", "watch", "gated", "gated"}[c.intn(5)]
	if script == "late" {
		ctxKind = "gated"
	}
	ctx, cancel, propagate := newQCallerCtx(ctxKind)
	defer propagate()
	defer cancel()
	sc := &cursorScenario{c: c, log: log, pz: pz, cancel: cancel, errObs: map[int]terr{}, perWorker: map[int][][]int64{}}
	sc.r = bs.VerifNewResults(ctx)
	sc.sem = make(chan struct{}, 4)
	nClosers := 1 + c.intn(3)
	nWorkers := 1 + c.intn(3)
	sc.consumer = newActor()
	for i := 0; i < nClosers; i++ {
		sc.closers = append(sc.closers, newActor())
	}
	for i := 0; i < nWorkers; i++ {
		sc.workers = append(sc.workers, newActor())
		sc.slots = append(sc.slots, bs.VerifNewSlot(sc.sem, sc.r.VerifInternalCtx()))
	}
	mainGid := curGoroutineID()

	// hold policy for the pause points of this scenario
	holdP := map[string]float64{"res.next.wait": 0.5, "res.close.waited": 0.4, "res.term.waited": 0.4, "res.deliver.block": 0.3}
	if script == "d7" {
		holdP = map[string]float64{"res.next.wait": 1}
	}
	if script == "late" {
		holdP = map[string]float64{}
	}
	holds := map[string]bool{}
	for k, p := range holdP {
		holds[k] = c.chance(p)
	}
	pz.setHold(func(point string, id int64) bool { return holds[point] })

	doNext := func() {
		sc.consumer.start(func() {
			ok := sc.r.Next()
			sc.nextObs = append(sc.nextObs, nextObs{ret: ok, row: qRowID(sc.r.Row())})
		})
		sc.consumer.settle(settleShort)
	}
	doDeliver := func(w int) {
		n := 1 + c.intn(3)
		batch := make([]map[string]any, n)
		ids := make([]int64, n)
		for i := range batch {
			id := int64(w)*100000 + int64(sc.serial)
			sc.serial++
			ids[i] = id
			batch[i] = map[string]any{"id": float64(id)}
		}
		sc.perWorker[w] = append(sc.perWorker[w], ids)
		if c.chance(0.6) {
			sc.slots[w].Acquire()
		}
		sc.workers[w].start(func() { sc.r.VerifDeliver(sc.slots[w], batch) })
		sc.workers[w].settle(settleShort)
	}
	doStat := func() {
		st := bs.BlockStats{FilePointer: []byte{byte('a' + c.intn(3))}, BlockOffset: c.intn(5) * 100, TotalRows: int64(1 + c.intn(50)), TotalBytes: int64(100 + c.intn(1000))}
		switch c.intn(3) {
		case 0:
			st.BloomFilterSkipped = true
		case 1:
			st.RowsProcessed = st.TotalRows
			st.BytesProcessed = st.TotalBytes - int64(c.intn(50))
		case 2: // failed before reading anything
		}
		sc.stats = append(sc.stats, st)
		sc.r.VerifRecordBlockStats(st)
	}
	doErr := func() {
		id := int64(100 + len(sc.errIDs))
		sc.errIDs = append(sc.errIDs, id)
		if c.chance(0.5) {
			sc.r.VerifRecordBlockError(idErr{id})
		} else {
			sc.r.VerifRecordQueryError(fmt.Errorf("MetaStore iteration failed: %w", idErr{id}))
		}
	}
	anyWorkerBusy := func() bool {
		for _, w := range sc.workers {
			if !w.settle(0) {
				return true
			}
		}
		return false
	}
	doWorkersDone := func() bool {
		if sc.finished || anyWorkerBusy() {
			return false
		}
		sc.r.VerifMarkWorkersDone()
		sc.finished = true
		return true
	}
	doCancel := func() {
		if sc.cancelled {
			return
		}
		sc.cancelled = true
		bs.VerifEmit("caller.cancel.begin", sc.r.VerifID(), 0, "")
		cancel()
		bs.VerifEmit("caller.cancel.end", sc.r.VerifID(), 0, "")
	}
	doClose := func(k int) {
		if !sc.closers[k].settle(0) {
			return
		}
		sc.closers[k].start(func() {
			sc.r.Close()
			if !sc.r.VerifWorkersDone() {
				sc.closeEarly.Store(true)
			}
		})
		sc.closers[k].settle(settleShort)
	}

	if script == "d7" {
		// D7: the consumer is parked between the ctx poll and the blocking select; the caller
		// cancels, a worker's batch is given up, the pipeline winds down and closes rowChan.
		// (In the engine the workers see the cancellation, drop what they were scanning and exit.)
		sc.plan = append(sc.plan, "next(park)", "cancel", "workersdone", "release")
		doNext()
		pz.waitParked("res.next.wait", time.Second)
		doCancel()
		doWorkersDone()
	} else if script == "late" {
		// The pipeline finishes by itself, rows are still buffered, the caller cancels and the cancellation has
		// not reached the cursor's internal context when the consumer comes back: the remaining calls hand out
		// what is buffered, the last one finds the channel closed and must still report the cancellation.
		for i, n := 0, c.intn(4); i < n; i++ { // at most queryRowBatchBuffer batches: no deliver blocks
			sc.plan = append(sc.plan, "deliver")
			w := c.intn(nWorkers)
			sc.workers[w].wait()
			doDeliver(w)
		}
		for _, a := range sc.workers {
			a.wait()
		}
		for i, n := 0, c.intn(3); i < n; i++ {
			if sc.consumer.settle(0) { // (a Next that found nothing buffered is still inside its select)
				sc.plan = append(sc.plan, "next")
				doNext()
			}
		}
		if c.chance(0.3) {
			sc.plan = append(sc.plan, "err")
			doErr()
		}
		order := c.intn(2)
		if order == 0 {
			sc.plan = append(sc.plan, "workersdone", "cancel")
			doWorkersDone()
			doCancel()
		} else {
			sc.plan = append(sc.plan, "cancel", "workersdone")
			doCancel()
			doWorkersDone()
		}
	} else {
		steps := 8 + c.intn(30)
		for i := 0; i < steps; i++ {
			switch x := c.intn(100); {
			case x < 30:
				if sc.consumer.settle(0) {
					sc.plan = append(sc.plan, "next")
					doNext()
				}
			case x < 50:
				w := c.intn(nWorkers)
				if !sc.finished && sc.workers[w].settle(0) {
					sc.plan = append(sc.plan, fmt.Sprintf("deliver%d", w))
					doDeliver(w)
				}
			case x < 58:
				if !sc.finished {
					sc.plan = append(sc.plan, "stat")
					doStat()
				}
			case x < 64:
				if !sc.finished {
					sc.plan = append(sc.plan, "err")
					doErr()
				}
			case x < 72:
				if doWorkersDone() {
					sc.plan = append(sc.plan, "workersdone")
				}
			case x < 78:
				if !sc.cancelled {
					sc.plan = append(sc.plan, "cancel")
					doCancel()
				}
			case x < 86:
				k := c.intn(nClosers)
				sc.plan = append(sc.plan, fmt.Sprintf("close%d", k))
				doClose(k)
			case x < 90 && ctxKind == "gated" && sc.cancelled:
				sc.plan = append(sc.plan, "propagate")
				propagate()
				time.Sleep(settleShort)
			case x < 96:
				if n := pz.parkedCount(); n > 0 {
					sc.plan = append(sc.plan, "release")
					pz.releaseAt(c.intn(n))
					time.Sleep(settleShort)
				}
			default:
				sc.plan = append(sc.plan, "err?")
				sc.observeErr()
			}
			if c.chance(0.2) {
				sc.observeErr()
			}
		}
	}

	// ---- wind down: everything must come to an end
	if script == "d7" {
		pz.releaseAll()
	} else if script == "late" {
		deadline := time.Now().Add(10 * time.Second)
		for anyWorkerBusy() && time.Now().Before(deadline) {
			time.Sleep(100 * time.Microsecond)
		}
		pz.releaseAll()
	} else {
		if c.chance(0.5) {
			propagate()
		}
		mode := c.intn(3) // 0: consumer drains; 1: cancel; 2: close
		switch mode {
		case 1:
			doCancel()
		case 2:
			doClose(0)
		}
		if c.chance(0.5) {
			pz.releaseAll()
		}
		deadline := time.Now().Add(10 * time.Second)
		for anyWorkerBusy() {
			if n := pz.parkedCount(); n > 0 {
				pz.releaseAt(c.intn(n))
			}
			if sc.consumer.settle(0) {
				doNext()
			}
			time.Sleep(100 * time.Microsecond)
			if time.Now().After(deadline) {
				c.violation("q-cursor-stuck", "cursor component: a deliver never returned", map[string]any{"plan": sc.plan})
				doCancel()
				break
			}
		}
		doWorkersDone()
		if c.chance(0.3) {
			sc.observeErr()
		}
		pz.releaseAll()
	}
	waitAll := func(a *actor, what string) bool {
		if !a.settle(10 * time.Second) {
			c.violation("q-cursor-stuck", "cursor component: "+what+" did not return after the workers were done", map[string]any{"plan": sc.plan})
			return false
		}
		return true
	}
	ok := waitAll(sc.consumer, "Next")
	for i := 0; ok && i < 400; i++ {
		if len(sc.nextObs) > 0 && !sc.nextObs[len(sc.nextObs)-1].ret {
			break
		}
		doNext()
		ok = waitAll(sc.consumer, "Next")
	}
	sc.observeErr()
	if ok {
		doNext() // sticky
		ok = waitAll(sc.consumer, "Next")
		sc.observeErr()
	}
	for k := range sc.closers {
		ok = ok && waitAll(sc.closers[k], "Close")
	}
	finalErr := classifyErr(sc.r.Err())
	finalStats := sc.r.Stats()
	var closeRet error
	if ok {
		closeRet = sc.r.Close() // from the main goroutine: closer index nClosers
		if closeRet != nil {
			c.violation("q-close-nonnil", "Close returned a non-nil error: "+closeRet.Error(), map[string]any{"plan": sc.plan})
		}
	}
	errAfterClose := classifyErr(sc.r.Err())
	sc.consumer.stop()
	for _, a := range sc.closers {
		a.stop()
	}
	for _, a := range sc.workers {
		a.stop()
	}
	if !ok {
		return "", nil, "", false
	}

	// ---- translate the log
	evs := log.snapshot()
	// C20 directly on the implementation: the caller's cancel had returned before the Next call that ended
	// the iteration began and nobody had called Close when it ended: Err must be the context's error.
	if fixed {
		callStart, cancelEnd, closeBegin, finish := -1, -1, -1, -1
		for i, e := range evs {
			switch e.Kind {
			case "res.next.term", "res.next.wait", "res.next.pending", "res.next.done":
				if finish < 0 {
					callStart = i
				}
			case "caller.cancel.end":
				cancelEnd = i
			case "res.close.begin":
				if closeBegin < 0 {
					closeBegin = i
				}
			case "res.finish":
				if finish < 0 {
					finish = i
				}
			}
		}
		if finish >= 0 && cancelEnd >= 0 && cancelEnd < callStart && (closeBegin < 0 || closeBegin > finish) && finalErr.kind != "cancel" {
			c.violation("q-cursor-cancel-missed", fmt.Sprintf("cursor component: the caller's context (%s) was cancelled before the Next call that returned false began, nobody had called Close, yet Err = %s %s",
				ctxKind, finalErr.kind, finalErr.text), map[string]any{"plan": sc.plan, "ctx": ctxKind})
		}
	}
	if sc.closeEarly.Load() {
		c.violation("q-close-early", "cursor component: a Close call returned before markWorkersDone (the pipeline had not wound down)", map[string]any{"plan": sc.plan})
	}
	c.dist("cursor_ctx", ctxKind)
	closerIdx := map[int64]int{mainGid: nClosers}
	for k, a := range sc.closers {
		closerIdx[a.gid] = k
	}
	workerIdx := map[int64]int{}
	for w, a := range sc.workers {
		workerIdx[a.gid] = w
	}
	fileIdx := func(p []byte) int64 {
		if len(p) == 0 {
			return 0
		}
		return int64(p[0] - 'a')
	}
	var ops []string
	var kinds []string
	obsAt := func(i int, extra string) string {
		items := []string{}
		if extra != "" {
			items = append(items, extra)
		}
		if e, ok := sc.errObs[i]; ok {
			items = append(items, "OErr "+e.coq())
		}
		return coqList(items)
	}
	nextI, statI, errI := 0, 0, 0
	deliverI := map[int]int{}
	popNext := func() (nextObs, bool) {
		if nextI >= len(sc.nextObs) {
			return nextObs{}, false
		}
		o := sc.nextObs[nextI]
		nextI++
		return o, true
	}
	bad := ""
	var pendingClosedAt = -1 // index in ops of a res.next.closed label whose c is decided by the following event
	for i, e := range evs {
		lab, extra := "", ""
		switch e.Kind {
		case "caller.cancel.begin":
			lab = "LCancelBegin"
		case "caller.cancel.end":
			lab = "LCancelEnd"
		case "res.deliver.try":
			w := workerIdx[e.Gid]
			b := sc.perWorker[w][deliverI[w]]
			deliverI[w]++
			items := make([]string, len(b))
			for j, id := range b {
				items[j] = coqZ(id)
			}
			lab = fmt.Sprintf("LDeliverTry %s %s", coqNat(w), coqList(items))
		case "res.deliver.fast", "res.deliver.slow":
			lab = fmt.Sprintf("LDeliverOk %s", coqNat(workerIdx[e.Gid]))
		case "res.deliver.ctx":
			lab = fmt.Sprintf("LDeliverCtx %s", coqNat(workerIdx[e.Gid]))
		case "res.stat":
			lab = "LRecordStat " + coqBStat(fileIdx(sc.stats[statI].FilePointer), sc.stats[statI])
			statI++
		case "res.err":
			lab = "LRecordErr " + coqZ(sc.errIDs[errI])
			errI++
		case "res.workersdone":
			lab = "LWorkersDone"
		case "res.next.done":
			o, ok := popNext()
			if !ok {
				bad = "no observation for res.next.done"
			}
			lab, extra = "LNextSticky", o.coq()
		case "res.next.term":
			lab = "LNextTerm"
		case "res.next.pending":
			o, ok := popNext()
			if !ok {
				bad = "no observation for res.next.pending"
			}
			lab, extra = "LNextPending", o.coq()
		case "res.next.wait":
			lab = "LNextWait"
		case "res.next.batch":
			o, ok := popNext()
			if !ok {
				bad = "no observation for res.next.batch"
			}
			lab, extra = fmt.Sprintf("LNextBatch %s", coqNat(int(o.row/100000))), o.coq()
		case "res.next.closed":
			// the read of the caller's context follows (fixed code): the label is completed below
			lab = "LNextClosed false"
			pendingClosedAt = len(ops)
		case "res.next.closed.ctx":
			// fixed code: the caller's context was done: the read happened here, not at the receive
			if pendingClosedAt >= 0 {
				ops[pendingClosedAt] = ""
				kinds[pendingClosedAt] = ""
			}
			lab = "LNextClosed true"
		case "res.next.ctx":
			lab = "LNextCtx"
		case "res.term.waited":
			// pre-read marker: a "not done" read is placed here (the earliest point it can have happened)
			lab = "@termwaited"
		case "res.term.decide":
			if e.B != 0 {
				lab = "LTermDecide true"
			} else {
				// move to the marker
				for j := len(ops) - 1; j >= 0; j-- {
					if ops[j] == "@termwaited" {
						ops[j] = "(LTermDecide false, [])"
						break
					}
				}
				continue
			}
		case "res.finish":
			o, ok := popNext()
			if !ok {
				bad = "no observation for res.finish"
			}
			lab, extra = "LFinish", o.coq()
		case "res.close.begin":
			lab = fmt.Sprintf("LCloseBegin %s", coqNat(closerIdx[e.Gid]))
		case "res.close.final":
			lab = fmt.Sprintf("LCloseFinal %s", coqNat(closerIdx[e.Gid]))
		case "res.close.ret":
			lab = fmt.Sprintf("LCloseRet %s", coqNat(closerIdx[e.Gid]))
		case "slot.acq.ok", "slot.acq.ctx", "slot.rel":
			continue
		default:
			if qForeignEvent(e.Kind) {
				continue
			}
			bad = "unexpected event " + e.Kind
		}
		if lab == "@termwaited" {
			ops = append(ops, lab)
			kinds = append(kinds, e.Kind)
			continue
		}
		ops = append(ops, "("+lab+", "+obsAt(i, extra)+")")
		kinds = append(kinds, e.Kind)
	}
	final := ops[:0]
	for _, o := range ops {
		if o == "" || o == "@termwaited" {
			continue
		}
		final = append(final, o)
	}
	if bad != "" {
		c.mismatch("q-cursor-log", "cursor component: event log cannot be translated: "+bad, map[string]any{"plan": sc.plan})
		return "", nil, "", false
	}
	term = fmt.Sprintf("QCursor {| cc_fx := %s; cc_closers := %s; cc_ops := %s; cc_err := %s; cc_err_after_close := %s; cc_stats := %s |}",
		coqBool(fixed), coqNat(nClosers+1), coqList(final), finalErr.coq(), errAfterClose.coq(), coqSObs(finalStats, fileIdx))
	kindSeq := strings.Join(kinds, ",")
	returned := 0
	for _, o := range sc.nextObs {
		if o.ret {
			returned++
		}
	}
	desc = map[string]any{"kind": "cursor", "script": script, "plan": strings.Join(sc.plan, " "), "events": len(evs), "holds": holds,
		"err": finalErr.kind, "err_text": finalErr.text, "rows_returned": returned, "rows_matched": finalStats.RowsMatched,
		"cancelled": sc.cancelled, "closers": nClosers, "workers": nWorkers, "ctx": ctxKind}
	c.dist("cursor_err", finalErr.kind)
	c.dist("cursor_events", qBucket(len(evs)))
	nontrivial = len(evs) >= 8 && returned+len(sc.errIDs)+len(sc.stats) > 0
	return term, desc, kindSeq, nontrivial
}

func qBucket(n int) string {
	switch {
	case n < 10:
		return "<10"
	case n < 30:
		return "10-29"
	case n < 100:
		return "30-99"
	case n < 300:
		return "100-299"
	}
	return ">=300"
}
