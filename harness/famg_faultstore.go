package main

// Family G: a DataStore wrapper with per-call fault injection, a pause hook and one
// totally ordered call log shared with the MetaStore wrapper (gLogMeta). It wraps any
// DataStore, in particular the real FileSystemDataStore. An injected fault returns
// the error without performing the call on the inner store.

import (
	"context"
	"io"
	"sync"

	bs "github.com/danthegoodman1/bloomsearch"
)

type gCall struct {
	Kind    string // Iter Update CreateFile OpenFile Read Write Close Abort Tombstone
	Pointer string
	Handle  int
	Off     int64
	Failed  bool
	Gid     int64
	Update  *gUpdateCall
}

type gFaultStore struct {
	inner     bs.DataStore
	withAbort bool

	mu        sync.Mutex
	calls     []gCall
	kindCount map[string]int
	nextH     int
	fault     faultFn                    // nil error = proceed
	onCall    func(kind, pointer string) // before the call proceeds, outside the lock
}

func newGFaultStore(inner bs.DataStore) *gFaultStore {
	return &gFaultStore{inner: inner, withAbort: true, kindCount: map[string]int{}}
}

// begin runs the hook and decides whether the nth call of this kind fails.
func (s *gFaultStore) begin(kind, pointer string) error {
	if s.onCall != nil {
		s.onCall(kind, pointer)
	}
	s.mu.Lock()
	n := s.kindCount[kind]
	s.kindCount[kind] = n + 1
	f := s.fault
	s.mu.Unlock()
	if f != nil {
		return f(kind, n, pointer)
	}
	return nil
}

func (s *gFaultStore) log(c gCall) {
	c.Gid = curGoroutineID()
	s.mu.Lock()
	s.calls = append(s.calls, c)
	s.mu.Unlock()
}

// metaLog is handed to gLogMeta so that MetaStore calls land in the same log; fault
// decisions for them are taken by gLogMeta itself.
func (s *gFaultStore) metaLog(kind string, err error, u *gUpdateCall) {
	s.log(gCall{Kind: kind, Failed: err != nil, Update: u})
}

func (s *gFaultStore) snapshotCalls() []gCall {
	s.mu.Lock()
	defer s.mu.Unlock()
	return append([]gCall(nil), s.calls...)
}

type gfWriter struct {
	s       *gFaultStore
	inner   io.WriteCloser
	pointer string
}

type gfWriterAbort struct{ *gfWriter }

func (s *gFaultStore) CreateFile(ctx context.Context) (io.WriteCloser, []byte, error) {
	if err := s.begin("CreateFile", ""); err != nil {
		s.log(gCall{Kind: "CreateFile", Failed: true})
		return nil, nil, err
	}
	w, p, err := s.inner.CreateFile(ctx)
	if err != nil {
		s.log(gCall{Kind: "CreateFile", Failed: true})
		return nil, nil, err
	}
	s.log(gCall{Kind: "CreateFile", Pointer: string(p)})
	fw := &gfWriter{s: s, inner: w, pointer: string(p)}
	if _, ok := w.(interface{ Abort() error }); ok && s.withAbort {
		return gfWriterAbort{fw}, p, nil
	}
	return fw, p, nil
}

func (w *gfWriter) Write(p []byte) (int, error) {
	if err := w.s.begin("Write", w.pointer); err != nil {
		w.s.log(gCall{Kind: "Write", Pointer: w.pointer, Failed: true})
		return 0, err
	}
	n, err := w.inner.Write(p)
	w.s.log(gCall{Kind: "Write", Pointer: w.pointer, Failed: err != nil})
	return n, err
}

func (w *gfWriter) Close() error {
	if err := w.s.begin("Close", w.pointer); err != nil {
		w.s.log(gCall{Kind: "Close", Pointer: w.pointer, Failed: true})
		return err
	}
	err := w.inner.Close()
	w.s.log(gCall{Kind: "Close", Pointer: w.pointer, Failed: err != nil})
	return err
}

func (w gfWriterAbort) Abort() error {
	if err := w.s.begin("Abort", w.pointer); err != nil {
		w.s.log(gCall{Kind: "Abort", Pointer: w.pointer, Failed: true})
		return err
	}
	err := w.inner.(interface{ Abort() error }).Abort()
	w.s.log(gCall{Kind: "Abort", Pointer: w.pointer, Failed: err != nil})
	return err
}

func (s *gFaultStore) TombstoneFile(ctx context.Context, pointer []byte) error {
	p := string(pointer)
	if err := s.begin("Tombstone", p); err != nil {
		s.log(gCall{Kind: "Tombstone", Pointer: p, Failed: true})
		return err
	}
	err := s.inner.TombstoneFile(ctx, pointer)
	s.log(gCall{Kind: "Tombstone", Pointer: p, Failed: err != nil})
	return err
}

type gfReader struct {
	s       *gFaultStore
	inner   io.ReadSeekCloser
	pointer string
	id      int
}

func (s *gFaultStore) OpenFile(ctx context.Context, pointer []byte) (io.ReadSeekCloser, error) {
	p := string(pointer)
	if err := s.begin("OpenFile", p); err != nil {
		s.log(gCall{Kind: "OpenFile", Pointer: p, Failed: true})
		return nil, err
	}
	h, err := s.inner.OpenFile(ctx, pointer)
	if err != nil {
		s.log(gCall{Kind: "OpenFile", Pointer: p, Failed: true})
		return nil, err
	}
	s.mu.Lock()
	s.nextH++
	id := s.nextH
	s.mu.Unlock()
	s.log(gCall{Kind: "OpenFile", Pointer: p, Handle: id})
	return &gfReader{s: s, inner: h, pointer: p, id: id}, nil
}

func (r *gfReader) Read(p []byte) (int, error) {
	pos, _ := r.inner.Seek(0, io.SeekCurrent)
	if err := r.s.begin("Read", r.pointer); err != nil {
		r.s.log(gCall{Kind: "Read", Pointer: r.pointer, Handle: r.id, Off: pos, Failed: true})
		return 0, err
	}
	n, err := r.inner.Read(p)
	r.s.log(gCall{Kind: "Read", Pointer: r.pointer, Handle: r.id, Off: pos, Failed: err != nil && err != io.EOF})
	return n, err
}

func (r *gfReader) Seek(off int64, whence int) (int64, error) { return r.inner.Seek(off, whence) }
func (r *gfReader) Close() error                              { return r.inner.Close() }
