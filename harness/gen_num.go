package main

// Generators for Go numeric values of every kind (named and unnamed) and for
// prefilter trees, each returned together with its Coq rendering.

import (
	"encoding/json"
	"fmt"
	"math"
	"math/big"
	"time"

	bs "github.com/danthegoodman1/bloomsearch"
)

type (
	myInt     int
	myI8      int8
	myI64     int64
	myU8      uint8
	myU32     uint32
	myU64     uint64
	myUintptr uintptr
	myF32     float32
	myF64     float64
)

var boundaryI64 = []int64{math.MinInt64, math.MinInt64 + 1, -1, 0, 1, math.MaxInt64 - 1, math.MaxInt64}

type numVal struct {
	v     any
	coq   string // gv term
	kind  string
	named bool
	// numeric: it has an exact value (not NaN, not GOther)
	numeric bool
	jsonOK  bool // json.Marshal accepts it
}

func gInt(named bool, z int64) string { return fmt.Sprintf("(GInt %s %s)", coqBool(named), coqZ(z)) }
func gUint(named bool, z uint64) string {
	return fmt.Sprintf("(GUint %s %s)", coqBool(named), new(big.Int).SetUint64(z).String())
}
func gFloat(named bool, f float64) string {
	return fmt.Sprintf("(GFloat %s %s)", coqBool(named), coqFloat(f))
}

func (c *Ctx) genI64() int64 {
	switch c.intn(6) {
	case 0:
		return boundaryI64[c.intn(len(boundaryI64))]
	case 1:
		return int64(c.intn(21) - 10)
	case 2:
		return int64(c.rng.Uint64())
	case 3:
		return math.MaxInt64 - int64(c.intn(1000))
	case 4:
		return math.MinInt64 + int64(c.intn(1000))
	default:
		return int64(c.intn(2000) - 1000)
	}
}

func (c *Ctx) genF64() float64 {
	switch c.intn(12) {
	case 0:
		return math.Float64frombits(c.rng.Uint64())
	case 1:
		return float64(c.intn(2001)-1000) / 8
	case 2:
		two63 := 9223372036854775808.0
		cands := []float64{two63, -two63, math.Nextafter(two63, 0), math.Nextafter(two63, math.Inf(1)),
			math.Nextafter(-two63, 0), math.Nextafter(-two63, math.Inf(-1)), 1 << 62, -(1 << 62)}
		return cands[c.intn(len(cands))]
	case 3:
		return math.SmallestNonzeroFloat64 * float64(1+c.intn(5)) * float64(1-2*c.intn(2))
	case 4:
		return math.MaxFloat64 * float64(1-2*c.intn(2))
	case 5:
		return math.Inf(1 - 2*c.intn(2))
	case 6:
		return math.NaN()
	case 7:
		return float64(c.genI64())
	case 8:
		return float64(c.intn(2001)-1000) + 0.5
	case 9:
		return math.Copysign(0, -1)
	case 10:
		return float64(float32(c.rng.Float64()*2000 - 1000))
	default:
		return (c.rng.Float64() - 0.5) * math.Pow(2, float64(c.intn(140)-10))
	}
}

// genNum draws a value of a random Go kind.
func (c *Ctx) genNum() numVal {
	i := c.genI64()
	u := c.rng.Uint64()
	if c.chance(0.3) {
		u = uint64(c.intn(1000))
	} else if c.chance(0.3) {
		u = math.MaxInt64 - 2 + uint64(c.intn(5))
	}
	f := c.genF64()
	mk := func(v any, coq, kind string, named bool) numVal {
		_, err := json.Marshal(v)
		return numVal{v: v, coq: coq, kind: kind, named: named, numeric: true, jsonOK: err == nil}
	}
	mkf := func(v any, fv float64, kind string, named bool) numVal {
		n := mk(v, gFloat(named, fv), kind, named)
		n.numeric = !math.IsNaN(fv)
		return n
	}
	switch c.intn(24) {
	case 0:
		return mk(int(i), gInt(false, i), "int", false)
	case 1:
		return mk(int8(i), gInt(false, int64(int8(i))), "int8", false)
	case 2:
		return mk(int16(i), gInt(false, int64(int16(i))), "int16", false)
	case 3:
		return mk(int32(i), gInt(false, int64(int32(i))), "int32", false)
	case 4:
		return mk(i, gInt(false, i), "int64", false)
	case 5:
		return mk(uint(u), gUint(false, u), "uint", false)
	case 6:
		return mk(uint8(u), gUint(false, uint64(uint8(u))), "uint8", false)
	case 7:
		return mk(uint16(u), gUint(false, uint64(uint16(u))), "uint16", false)
	case 8:
		return mk(uint32(u), gUint(false, uint64(uint32(u))), "uint32", false)
	case 9:
		return mk(u, gUint(false, u), "uint64", false)
	case 10:
		return mk(uintptr(u), gUint(false, u), "uintptr", false)
	case 11:
		return mkf(float32(f), float64(float32(f)), "float32", false)
	case 12:
		return mkf(f, f, "float64", false)
	case 13:
		return mk(myInt(i), gInt(true, i), "named int", true)
	case 14:
		return mk(myI8(i), gInt(true, int64(int8(i))), "named int8", true)
	case 15:
		return mk(time.Duration(i), gInt(true, i), "time.Duration", true)
	case 16:
		return mk(myU8(u), gUint(true, uint64(uint8(u))), "named uint8", true)
	case 17:
		return mk(myU64(u), gUint(true, u), "named uint64", true)
	case 18:
		return mkf(myF32(f), float64(float32(f)), "named float32", true)
	case 19:
		return mkf(myF64(f), f, "named float64", true)
	case 20:
		return mk(myU32(u), gUint(true, uint64(uint32(u))), "named uint32", true)
	case 21:
		return mk(myI64(i), gInt(true, i), "named int64", true)
	case 22:
		return mk(myUintptr(u), gUint(true, u), "named uintptr", true)
	default:
		others := []any{"12", json.Number("5"), nil, true, []int{1}, map[string]any{"a": 1}}
		o := others[c.intn(len(others))]
		return numVal{v: o, coq: "GOther", kind: "non-numeric", numeric: false, jsonOK: true}
	}
}

var allOps = []bs.QueryOperator{bs.OpEqual, bs.OpNotEqual, bs.OpGreaterThan, bs.OpGreaterThanEqual, bs.OpLessThan,
	bs.OpLessThanEqual, bs.OpIn, bs.OpNotIn, bs.OpBetween, bs.OpNotBetween}

func coqOp(op bs.QueryOperator) string {
	switch op {
	case bs.OpEqual:
		return "OpEQ"
	case bs.OpNotEqual:
		return "OpNE"
	case bs.OpGreaterThan:
		return "OpGT"
	case bs.OpGreaterThanEqual:
		return "OpGTE"
	case bs.OpLessThan:
		return "OpLT"
	case bs.OpLessThanEqual:
		return "OpLTE"
	case bs.OpIn:
		return "OpIN"
	case bs.OpNotIn:
		return "OpNOTIN"
	case bs.OpBetween:
		return "OpBETWEEN"
	case bs.OpNotBetween:
		return "OpNOTBETWEEN"
	}
	return "OpUnknown"
}

func coqNCond(nc bs.NumericCondition) string {
	vals := make([]string, len(nc.Values))
	for i, v := range nc.Values {
		vals[i] = coqZ(v)
	}
	return fmt.Sprintf("{| n_op := %s; n_val := %s; n_vals := %s; n_min := %s; n_max := %s |}",
		coqOp(nc.Operator), coqZ(nc.Value), coqList(vals), coqZ(nc.Min), coqZ(nc.Max))
}

func coqSCond(sc bs.StringCondition) string {
	return fmt.Sprintf("{| s_op := %s; s_val := %s; s_vals := %s; s_min := %s; s_max := %s |}",
		coqOp(sc.Operator), coqS(sc.Value), coqStrList(sc.Values), coqS(sc.Min), coqS(sc.Max))
}

func (c *Ctx) genOp() bs.QueryOperator {
	if c.chance(0.03) {
		return bs.QueryOperator("BOGUS")
	}
	return allOps[c.intn(len(allOps))]
}

// genNCond draws a numeric condition; near lists values the condition should sit close to.
func (c *Ctx) genNCond(near []int64) bs.NumericCondition {
	pickv := func() int64 {
		if len(near) > 0 && c.chance(0.7) {
			d := int64(c.intn(5) - 2)
			v := near[c.intn(len(near))]
			if (d > 0 && v > math.MaxInt64-d) || (d < 0 && v < math.MinInt64-d) {
				return v
			}
			return v + d
		}
		return c.genI64()
	}
	nc := bs.NumericCondition{Operator: c.genOp(), Value: pickv(), Min: pickv(), Max: pickv()}
	n := c.intn(4)
	for i := 0; i < n; i++ {
		nc.Values = append(nc.Values, pickv())
	}
	return nc
}

var partitionPool = []string{"", "a", "b", "ab", "a\x00", "p1", "p2", "Z", "é", "\xff", "an", "a|n", "a:n"}

func (c *Ctx) genSCond() bs.StringCondition {
	p := func() string { return partitionPool[c.intn(len(partitionPool))] }
	sc := bs.StringCondition{Operator: c.genOp(), Value: p(), Min: p(), Max: p()}
	n := c.intn(3)
	for i := 0; i < n; i++ {
		sc.Values = append(sc.Values, p())
	}
	return sc
}

// genPExpr draws a prefilter tree with nil/empty/unknown nodes; returns the Go tree and the Coq pexpr.
func (c *Ctx) genPExpr(depth int, keys []string, near map[string][]int64) (bs.PrefilterExpression, string) {
	r := c.intn(100)
	if depth <= 0 || r < 45 {
		// condition leaf
		switch x := c.intn(20); {
		case x == 0:
			c.dist("pexpr_nodes", "nil-condition")
			return bs.PrefilterExpression{ExpressionType: bs.PrefilterExpressionCondition}, "(PCond None)"
		case x == 1:
			c.dist("pexpr_nodes", "unknown-condition-type")
			return bs.PrefilterExpression{ExpressionType: bs.PrefilterExpressionCondition,
				Condition: &bs.PrefilterCondition{ConditionType: "BOGUS"}}, "(PCond (Some PUnknownCond))"
		case x == 2:
			c.dist("pexpr_nodes", "partition-nil")
			return bs.PrefilterExpression{ExpressionType: bs.PrefilterExpressionCondition,
				Condition: &bs.PrefilterCondition{ConditionType: bs.PrefilterConditionPartition}}, "(PCond (Some (PPartition None)))"
		case x == 3:
			c.dist("pexpr_nodes", "minmax-nil")
			k := keys[c.intn(len(keys))]
			return bs.PrefilterExpression{ExpressionType: bs.PrefilterExpressionCondition,
				Condition: &bs.PrefilterCondition{ConditionType: bs.PrefilterConditionMinMax, MinMaxFieldName: k}}, fmt.Sprintf("(PCond (Some (PMinMax %s None)))", coqS(k))
		case x < 8:
			c.dist("pexpr_nodes", "partition")
			sc := c.genSCond()
			return bs.Partition(sc), fmt.Sprintf("(PCond (Some (PPartition (Some %s))))", coqSCond(sc))
		default:
			c.dist("pexpr_nodes", "minmax")
			k := keys[c.intn(len(keys))]
			nc := c.genNCond(near[k])
			return bs.MinMax(k, nc), fmt.Sprintf("(PCond (Some (PMinMax %s (Some %s))))", coqS(k), coqNCond(nc))
		}
	}
	if r < 48 {
		c.dist("pexpr_nodes", "unknown-expression-type")
		return bs.PrefilterExpression{ExpressionType: "BOGUS"}, "PUnknown"
	}
	n := c.intn(4)
	kids := make([]bs.PrefilterExpression, n)
	coqs := make([]string, n)
	for i := range kids {
		kids[i], coqs[i] = c.genPExpr(depth-1, keys, near)
	}
	if r < 75 {
		c.dist("pexpr_nodes", fmt.Sprintf("and/%d", n))
		return bs.PrefilterExpression{ExpressionType: bs.PrefilterExpressionAnd, Children: kids}, "(PAnd " + coqList(coqs) + ")"
	}
	c.dist("pexpr_nodes", fmt.Sprintf("or/%d", n))
	return bs.PrefilterExpression{ExpressionType: bs.PrefilterExpressionOr, Children: kids}, "(POr " + coqList(coqs) + ")"
}

func coqMM(m map[string]bs.MinMaxIndex) string {
	items := make([]string, 0, len(m))
	for _, k := range sortedKeys(m) {
		items = append(items, coqPair(coqS(k), coqPair(coqZ(m[k].Min), coqZ(m[k].Max))))
	}
	return coqList(items)
}

func coqBlockMeta(b *bs.DataBlockMetadata) string {
	return fmt.Sprintf("{| b_partition := %s; b_mm := %s |}", coqS(b.PartitionID), coqMM(b.MinMaxIndexes))
}
