package main

// Shared helpers of the sizing (C26) and silence (C27) commands: reading what an
// engine wrote back from the store, per-row entry sets, Coq printers.

import (
	"bytes"
	"context"
	"encoding/json"
	"fmt"
	"math"
	"sort"
	"strings"

	"github.com/bits-and-blooms/bloom/v3"
	bs "github.com/danthegoodman1/bloomsearch"
)

// rowEnt is what one row contributes to the three entry sets
// (bloomEntrySets.indexRow through the verif export).
type rowEnt struct{ f, t, ft []string }

func entriesOf(rowBytes []byte, tok bs.ValueTokenizerFunc) rowEnt {
	f, t, ft, counts := bs.VerifRowEntries(rowBytes, tok)
	if counts.Fields != len(f) || counts.Tokens != len(t) || counts.FieldTokens != len(ft) {
		panic("VerifRowEntries: counts() disagrees with the sets")
	}
	return rowEnt{f: f, t: t, ft: ft}
}

func (e rowEnt) class(i int) []string {
	switch i {
	case 0:
		return e.f
	case 1:
		return e.t
	}
	return e.ft
}

var classNames = [3]string{"field", "token", "fieldtoken"}

// goDistinct is the harness's own implementation of the model's distinct_count:
// sort, then count the runs. It is compared with the Coq function on every
// structured scenario (CDistinct cases) and used alone at volumes the Coq
// evaluation cannot carry.
func goDistinct(lists ...[]string) int {
	n := 0
	for _, l := range lists {
		n += len(l)
	}
	all := make([]string, 0, n)
	for _, l := range lists {
		all = append(all, l...)
	}
	sort.Strings(all)
	d := 0
	for i := range all {
		if i == 0 || all[i] != all[i-1] {
			d++
		}
	}
	return d
}

func distinctOfRows(rows []rowEnt, class int) int {
	lists := make([][]string, len(rows))
	for i, r := range rows {
		lists[i] = r.class(class)
	}
	return goDistinct(lists...)
}

// coqRowEnt prints a row's entries for the model. The implementation's sets are
// insensitive to the order and multiplicity in which a row emits its entries, so
// the printed lists are shuffled and some entries repeated (dup > 0): the model
// has to be insensitive too.
func (c *Ctx) coqRowEnt(e rowEnt, dup float64) string {
	pr := func(l []string) string {
		out := make([]string, 0, len(l)+2)
		for _, s := range l {
			out = append(out, s)
			if dup > 0 && c.chance(dup) {
				out = append(out, s)
			}
		}
		if dup > 0 {
			c.rng.Shuffle(len(out), func(i, j int) { out[i], out[j] = out[j], out[i] })
		}
		return coqStrList(out)
	}
	return fmt.Sprintf("{| re_fields := %s; re_tokens := %s; re_ftoks := %s |}", pr(e.f), pr(e.t), pr(e.ft))
}

func rateBits(p float64) int64 { return int64(math.Float64bits(p)) }

// ---------------------------------------------------------------- reading files back

type obsFilterSet struct {
	filters [3]*bloom.BloomFilter // field, token, field::token (nil when absent)
	counts  bs.BloomEntryCounts
	rate    float64
}

type obsBlock struct {
	obsFilterSet
	meta     bs.DataBlockMetadata
	rowBytes [][]byte
}

type obsFile struct {
	obsFilterSet
	pointer string
	blocks  []obsBlock
}

func filtersOf(f bs.BloomFilters) [3]*bloom.BloomFilter {
	return [3]*bloom.BloomFilter{f.FieldBloomFilter, f.TokenBloomFilter, f.FieldTokenBloomFilter}
}

// readFileBack decodes a published file from the store's bytes: file metadata and
// file-level filters through ReadFileMetadata, every block's filters through
// ReadDataBlockBloomFilters, every block's rows through ReadDataBlockRowData.
func readFileBack(ctx context.Context, store bs.DataStore, pointer []byte) (*obsFile, error) {
	h, err := store.OpenFile(ctx, pointer)
	if err != nil {
		return nil, err
	}
	defer h.Close()
	md, _, err := bs.ReadFileMetadata(h)
	if err != nil {
		return nil, fmt.Errorf("ReadFileMetadata: %w", err)
	}
	of := &obsFile{pointer: string(pointer)}
	of.filters = filtersOf(md.BloomFilters)
	of.counts = md.BloomEntryCounts
	of.rate = md.BloomFalsePositiveRate
	for _, bm := range md.DataBlocks {
		bf, err := bs.ReadDataBlockBloomFilters(h, bm)
		if err != nil {
			return nil, fmt.Errorf("ReadDataBlockBloomFilters: %w", err)
		}
		ob := obsBlock{meta: bm}
		ob.filters = filtersOf(*bf)
		ob.counts = bm.BloomEntryCounts
		ob.rate = bm.BloomFalsePositiveRate
		data, err := bs.ReadDataBlockRowData(h, &bm)
		if err != nil {
			return nil, fmt.Errorf("ReadDataBlockRowData: %w", err)
		}
		sc := bs.NewBlockRowScanner(data)
		for {
			rb, ok, err := sc.Next()
			if err != nil {
				return nil, err
			}
			if !ok {
				break
			}
			ob.rowBytes = append(ob.rowBytes, bytes.Clone(rb))
		}
		of.blocks = append(of.blocks, ob)
	}
	return of, nil
}

func listPointers(ctx context.Context, meta bs.MetaStore) []string {
	var out []string
	for f, err := range meta.GetMaybeFilesForQuery(ctx, nil) {
		must(err)
		out = append(out, string(f.PointerBytes))
	}
	sort.Strings(out)
	return out
}

func slRowID(rowBytes []byte) int {
	var m struct {
		ID *int `json:"id"`
	}
	if err := json.Unmarshal(rowBytes, &m); err != nil || m.ID == nil {
		return -1
	}
	return *m.ID
}

// a tokenizer that is not the engine's fast path: splits on space, comma and dash, keeps case
func slCustomTokenizer(s string) []string {
	return strings.FieldsFunc(s, func(r rune) bool { return r == ' ' || r == ',' || r == '-' })
}

func countsTriple(c bs.BloomEntryCounts) [3]int { return [3]int{c.Fields, c.Tokens, c.FieldTokens} }

func coqCounts(c bs.BloomEntryCounts) string {
	return fmt.Sprintf("{| c_fields := %d; c_tokens := %d; c_ftoks := %d |}", c.Fields, c.Tokens, c.FieldTokens)
}

func coqCaps(fs [3]*bloom.BloomFilter) string {
	items := make([]string, 3)
	for i, f := range fs {
		if f == nil {
			items[i] = "(0, 0)"
		} else {
			items[i] = coqPair(coqZ(int64(f.Cap())), coqZ(int64(f.K())))
		}
	}
	return coqList(items)
}
