#!/usr/bin/env python3
"""translate.py <repo> <coq/Generated dir>

Regenerates coq/Generated/Consts.v and coq/Generated/SilentGraph.v from the Go
sources of package bloomsearch. Python has no Go parser, so this builds and runs
the small stdlib-only Go program under harness/translate (go/parser + go/ast;
its own module, no dependencies) with the offline Go environment. The Go program
rewrites a file only when its content changed and its output is sorted, so an
unchanged repo leaves the files (and `make`) untouched. Invoked by ./check on
every run (see translate() there)."""
import os
import subprocess
import sys

HERE = os.path.dirname(os.path.abspath(__file__))
SRC = os.path.join(HERE, "harness", "translate")
GO = os.environ.get("VERIF_GO", "go1.26")


def main():
    if len(sys.argv) != 3:
        print("usage: translate.py <repo> <coq/Generated dir>", file=sys.stderr)
        return 2
    repo, gen = os.path.abspath(sys.argv[1]), os.path.abspath(sys.argv[2])
    outdir = os.path.join(HERE, "run", "translate")
    os.makedirs(outdir, exist_ok=True)
    os.makedirs(gen, exist_ok=True)
    binp = os.path.join(outdir, "bstranslate")
    env = dict(os.environ, GOFLAGS="-mod=mod", GOPROXY="off", GOSUMDB="off", GOTOOLCHAIN="local")
    # the Go build cache makes this a no-op when the translator's sources did not change
    p = subprocess.run([GO, "build", "-o", binp, "."], cwd=SRC, env=env, stdout=subprocess.PIPE, stderr=subprocess.STDOUT, text=True, timeout=600)
    if p.returncode != 0:
        print("building harness/translate failed:\n" + p.stdout)
        return 1
    p = subprocess.run([binp, "-repo", repo, "-out", gen], stdout=subprocess.PIPE, stderr=subprocess.STDOUT, text=True, timeout=300)
    sys.stdout.write(p.stdout)
    return p.returncode


if __name__ == "__main__":
    sys.exit(main())
